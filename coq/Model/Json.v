(* Json.v — executable model of AutoCarver/discretizers/utils/serialization.py and of the
   to_json / load_discretizer / load_carver pairs (base_discretizers.py, carvers/base_carver.py).

   JSON text is modelled by its tree: `dumps` yields the sequence of (key string, value) pairs that
   CPython's json.dumps writes (duplicate key strings are BOTH written), `loads` builds the dict
   json.loads builds from such a text (a repeated key keeps the position of its first occurrence
   and the value of its last one).  CPython's text functions are not re-implemented: the key
   conversion of json.dumps for numbers (int -> str(int), float -> float.__repr__) and `str` are
   the per-case tables [jk] and [ps] (functions val -> string computed by CPython itself).
   No proofs in this file. *)
From AC.Model Require Import Base GroupedList.
Open Scope string_scope.

(* a Python object made of str / number (finite, Infinity, -Infinity, NaN) / None / list / dict.
   Before dumps the dict keys are arbitrary values; a loaded JSON document has VStr keys only. *)
Inductive jv :=
| JAtom (v : val)
| JNone
| JList (l : list jv)
| JDict (d : list (val * jv)).

(* ---- insertion-ordered dicts with arbitrary payload (CPython dict semantics) --------------- *)
Fixpoint aget {A : Type} (k : val) (d : list (val * A)) : option A :=
  match d with
  | [] => None
  | (k', v) :: t => if val_eqb k k' then Some v else aget k t
  end.

(* d[k] = v : in place when the key exists, appended otherwise *)
Fixpoint aset {A : Type} (k : val) (v : A) (d : list (val * A)) : list (val * A) :=
  match d with
  | [] => [(k, v)]
  | (k', v') :: t => if val_eqb k k' then (k', v) :: t else (k', v') :: aset k v t
  end.

(* dict built from a sequence of pairs (dict comprehension, json.loads of an object):
   a repeated key keeps its first position and takes the last value *)
Definition of_pairs {A : Type} (l : list (val * A)) : list (val * A) :=
  fold_left (fun acc kv => aset (fst kv) (snd kv) acc) l [].

(* ---- convert_value_to_base_type / convert_value_to_numpy_type ------------------------------ *)
Definition sentinel : string := "numpy.inf".

(* `not isinstance(value, str) and not isfinite(value)` : +inf, -inf AND nan all become the
   sentinel string; numpy ints / floats become Python ints / floats (same model value) *)
Definition to_base (v : val) : val :=
  match v with
  | VPInf | VNInf | VNaN => VStr sentinel
  | _ => v
  end.

(* `value == "numpy.inf"` -> +inf *)
Definition to_numpy (v : val) : val :=
  match v with
  | VStr s => if String.eqb s sentinel then VPInf else v
  | _ => v
  end.

(* convert_values_to_base_types on a list of values and on a content dict (dict comprehension:
   the converted KEYS may collide) *)
Definition base_list (l : list val) : jv := JList (map (fun v => JAtom (to_base v)) l).

Definition base_dict (d : dict) : jv :=
  JDict (of_pairs (map (fun kv => (to_base (fst kv), base_list (snd kv))) d)).

(* json_serialize_values_orders, before dumps.  The content is written in LIST order:
   `{key: order.get(key) for key in order}` (repair "values_orders are serialised with the
   content in the order of the list"); a leader missing from content is written with []. *)
Definition serialize_feature (g : gl) : jv :=
  JDict [(VStr "order", base_list (keys g));
         (VStr "content", base_dict (dict_of_keys (keys g) (get g)))].

Definition serialize_vo (vo : list (val * gl)) : jv :=
  JDict (of_pairs (map (fun fg => (fst fg, serialize_feature (snd fg))) vo)).

(* ---- json.dumps / json.loads ----------------------------------------------------------------- *)
(* key written by json.dumps: a str is written as it is, a number through the table *)
Definition key_string (jk : val -> string) (k : val) : string :=
  match k with VStr s => s | _ => jk k end.

Fixpoint dumps (jk : val -> string) (j : jv) : jv :=
  match j with
  | JList l => JList (map (dumps jk) l)
  | JDict d => JDict (map (fun kv => match kv with (k, v) => (VStr (key_string jk k), dumps jk v) end) d)
  | _ => j
  end.

Fixpoint loads (j : jv) : jv :=
  match j with
  | JList l => JList (map loads l)
  | JDict d => JDict (of_pairs (map (fun kv => match kv with (k, v) => (k, loads v) end) d))
  | _ => j
  end.

(* ---- convert_values_to_numpy_types (applied to the whole loaded document) -------------------- *)
Definition numpy_elem (j : jv) : jv :=
  match j with JAtom v => JAtom (to_numpy v) | _ => j end.

Fixpoint numpy_types (j : jv) : jv :=
  match j with
  | JList l => JList (map numpy_elem l)
  | JDict d => JDict (of_pairs (map (fun kv => match kv with (k, v) => (to_numpy k, numpy_types v) end) d))
  | _ => JNone                                   (* `output = None` for anything else *)
  end.

(* ---- json_deserialize_values_orders ---------------------------------------------------------- *)
Fixpoint atom_list (l : list jv) : res (list val) :=
  match l with
  | [] => Ok []
  | JAtom v :: t => do r <- atom_list t ; Ok (v :: r)
  | _ :: _ => InternalErr                         (* unhashable / not iterable: TypeError *)
  end.

Definition atoms (j : jv) : res (list val) :=
  match j with JList l => atom_list l | _ => InternalErr end.

(* `if not isinstance(value, str) and isfinite(value): content_key = str(value)` *)
Definition content_key (ps : val -> string) (v : val) : val :=
  match v with VNum _ => VStr (ps v) | _ => v end.

(* the loop `for value in content["order"]: feature_content.update({value: content["content"][key]})` *)
Fixpoint feature_content (ps : val -> string) (order : list val) (cont : list (val * jv))
                         (acc : dict) : res dict :=
  match order with
  | [] => Ok acc
  | v :: t =>
      match aget (content_key ps v) cont with
      | None => InternalErr                       (* KeyError *)
      | Some x => do vs <- atoms x ; feature_content ps t cont (dset v vs acc)
      end
  end.

Definition deserialize_feature (ps : val -> string) (j : jv) : res gl :=
  match j with
  | JDict fd =>
      match aget (VStr "order") fd with
      | None => InternalErr
      | Some oj =>
          do order <- atoms oj ;
          match order with
          | [] => of_dict []
          | _ =>
              match aget (VStr "content") fd with
              | Some (JDict cont) => do fc <- feature_content ps order cont [] ; of_dict fc
              | _ => InternalErr
              end
          end
      end
  | _ => InternalErr
  end.

Fixpoint deserialize_features (ps : val -> string) (d : list (val * jv)) (acc : list (val * gl))
  : res (list (val * gl)) :=
  match d with
  | [] => Ok acc
  | (f, fj) :: t => do g <- deserialize_feature ps fj ; deserialize_features ps t (aset f g acc)
  end.

(* [text] is the dumps output *)
Definition deserialize_vo (ps : val -> string) (text : jv) : res (list (val * gl)) :=
  match numpy_types (loads text) with
  | JDict d => deserialize_features ps d []
  | _ => InternalErr
  end.

(* the complete trip of one values_orders *)
Definition vo_text (jk : val -> string) (vo : list (val * gl)) : jv := dumps jk (serialize_vo vo).

Definition roundtrip_vo (jk ps : val -> string) (vo : list (val * gl)) : res (list (val * gl)) :=
  deserialize_vo ps (vo_text jk vo).

Definition roundtrip_gl (jk ps : val -> string) (g : gl) : res gl :=
  deserialize_feature ps (numpy_types (loads (dumps jk (serialize_feature g)))).

(* what a reloaded group structure is when everything goes well: the content dict is rebuilt in
   LIST order (the only normalisation the trip performs) *)
Definition normalise (g : gl) : gl := mkGL (keys g) (map (fun k => (k, get g k)) (keys g)).

(* ---- the fitted object --------------------------------------------------------------------- *)
(* class of the Python object: BaseDiscretizer.to_json (Discretizer family, and every RELOADED
   object) or BaseCarver.to_json (adds "_history") *)
Inductive klass := KDiscretizer | KCarver.

(* the fitted state that determines behaviour: values_orders + everything else that to_json
   writes (features, features_casting, input_dtypes, output_dtype, str_nan, str_default, dropna,
   features_dropna, copy) kept as one JSON object [st_meta]; [st_history] is `_history` *)
Record state := mkState {
  st_class : klass;
  st_features : list val;
  st_vo : list (val * gl);
  st_meta : jv;
  st_history : jv }.

(* the dict returned by to_json(): "values_orders" holds the dumps TEXT *)
Record ojson := mkJson {
  j_features : list val;
  j_vo : jv;
  j_meta : jv;
  j_history : option jv }.

(* BaseDiscretizer.to_json adds "_history" whenever the attribute is not None (repair "a carver
   reloaded with load_carver keeps its history when serialised again"); BaseCarver.to_json always
   writes it *)
Definition hist_entry (h : jv) : option jv := match h with JNone => None | _ => Some h end.

Definition to_json_history (s : state) : option jv :=
  match st_class s with KCarver => Some (st_history s) | KDiscretizer => hist_entry (st_history s) end.

Definition to_json (jk : val -> string) (s : state) : ojson :=
  mkJson (st_features s) (vo_text jk (st_vo s)) (st_meta s) (to_json_history s).

(* json.loads(json.dumps(to_json())) : the values_orders text is a string, unchanged *)
Definition file_trip (jk : val -> string) (j : ojson) : ojson :=
  mkJson (j_features j) (j_vo j) (loads (dumps jk (j_meta j)))
         (match j_history j with Some h => Some (loads (dumps jk h)) | None => None end).

(* load_discretizer: BaseDiscretizer(kwargs of the json).fit().  A "_history" entry is an unexpected keyword
   (TypeError); fit() asserts that every feature has an order. *)
Definition load_discretizer (ps : val -> string) (j : ojson) : res state :=
  do vo <- deserialize_vo ps (j_vo j) ;
  match j_history j with
  | Some _ => InternalErr
  | None =>
      if forallb (fun f => mem f (map fst vo)) (j_features j)
      then Ok (mkState KDiscretizer (j_features j) vo (j_meta j) JNone)
      else AssertErr
  end.

(* load_carver: pops "_history", loads a BaseDiscretizer, re-attaches the history attribute.
   The object is a BaseDiscretizer carrying the already serialised history: its to_json() writes
   it again (observation O6, repaired). *)
Definition load_carver (ps : val -> string) (j : ojson) : res state :=
  do s <- load_discretizer ps (mkJson (j_features j) (j_vo j) (j_meta j) None) ;
  Ok (mkState KDiscretizer (st_features s) (st_vo s) (st_meta s)
              (match j_history j with Some h => h | None => JNone end)).

Definition load (ps : val -> string) (j : ojson) : res state :=
  match j_history j with Some _ => load_carver ps j | None => load_discretizer ps j end.

(* ---- decidable equalities (used by the checker and by the closed witnesses) ---------------- *)
Fixpoint vlist_eqb (a b : list val) : bool :=
  match a, b with
  | [], [] => true
  | x :: s, y :: t => val_eqb x y && vlist_eqb s t
  | _, _ => false
  end.

Fixpoint jv_eqb (a b : jv) : bool :=
  match a, b with
  | JAtom x, JAtom y => val_eqb x y
  | JNone, JNone => true
  | JList l, JList m =>
      (fix go (l m : list jv) : bool :=
         match l, m with
         | [], [] => true
         | x :: s, y :: t => jv_eqb x y && go s t
         | _, _ => false
         end) l m
  | JDict d, JDict e =>
      (fix go (d e : list (val * jv)) : bool :=
         match d, e with
         | [], [] => true
         | (k, x) :: s, (k', y) :: t => val_eqb k k' && jv_eqb x y && go s t
         | _, _ => false
         end) d e
  | _, _ => false
  end.

Fixpoint cdict_eqb (a b : dict) : bool :=
  match a, b with
  | [], [] => true
  | (k, x) :: s, (k', y) :: t => val_eqb k k' && vlist_eqb x y && cdict_eqb s t
  | _, _ => false
  end.

Definition gl_eqb (a b : gl) : bool :=
  vlist_eqb (keys a) (keys b) && cdict_eqb (content a) (content b).

Fixpoint vo_eqb (a b : list (val * gl)) : bool :=
  match a, b with
  | [], [] => true
  | (f, g) :: s, (f', g') :: t => val_eqb f f' && gl_eqb g g' && vo_eqb s t
  | _, _ => false
  end.

Definition ojv_eqb (a b : option jv) : bool :=
  match a, b with
  | Some x, Some y => jv_eqb x y
  | None, None => true
  | _, _ => false
  end.

Definition ojson_eqb (a b : ojson) : bool :=
  vlist_eqb (j_features a) (j_features b) && jv_eqb (j_vo a) (j_vo b)
  && jv_eqb (j_meta a) (j_meta b) && ojv_eqb (j_history a) (j_history b).
