(* CheckC19.v — verdict of the C19 correspondence.  No proofs here.

   A case carries what the harness did (class, entry point, malformed class, the abstract input
   record) and what the implementation answered: the exception class of the call and, for an
   object fitted before the call, whether values_orders / to_json() / transform(X_valid) are
   what they were before it.  The model is run on the same abstract input with the step lists
   of the Current tree. *)
From Coq Require Import List Bool Arith.
Import ListNotations.
From AC.Model Require Import Validate.

Record case19 := mkCase {
  k_cls : cls;
  k_entry : entry;
  k_mal : mal;
  k_input : input;
  k_fitted : bool;      (* the object was successfully fitted before the observed call *)
  k_result : result;    (* implementation: ROk no exception, RAssert AssertionError, ROther other *)
  k_unchanged : bool }. (* implementation: the three observables equal their snapshot *)

(* (result, state unchanged) of the model *)
Definition model_out (t : tree) (c : case19) : result * bool :=
  let o := mkObj (k_fitted c) 0 in
  let '(r, o') := run_call (csteps t (k_cls c) (k_entry c)) o (k_input c) in
  (r, Nat.eqb (state o') (state o)).

(* a write may rewrite the value that was there: only `model unchanged -> implementation
   unchanged` is compared; results are compared by class only *)
Definition agree (t : tree) (c : case19) : bool :=
  let '(r, u) := model_out t c in
  result_eqb r (k_result c) && implb u (k_unchanged c).

(* the property, on the implementation's own output *)
Definition prop19 (c : case19) : bool :=
  match k_mal c with
  | MNone => implb (k_fitted c) (k_unchanged c)
  | _ => result_eqb (k_result c) RAssert && implb (k_fitted c) (k_unchanged c)
  end.

(* the case is what it claims to be: the input exhibits the malformed class (exactly none for
   MNone) and the object's history matches the entry point *)
Definition in_domain (c : case19) : bool :=
  Bool.eqb (k_fitted c) (fitted_at (k_entry c)) &&
  match k_mal c with
  | MNone => forallb (fun m => negb (exhibits (k_cls c) (k_entry c) m false (k_input c)))
                     (removelast all_mals)      (* every class but MSecondFit *)
  | m => in_scope (k_cls c) (k_entry c) m && exhibits (k_cls c) (k_entry c) m (k_fitted c) (k_input c)
  end.

Definition verdict19 (c : case19) : nat :=
  if negb (in_domain c) then 3
  else if negb (prop19 c) then 2
  else if agree Current c then 0
  else 1.
