(* Selector.v — executable model of BaseSelector.select (AutoCarver/selectors/base_selector.py,
   filters/*.py, measures/base_measures.py).  NO proofs here.

   The model covers the selection LOGIC: the measure pipeline with early stop
   (feature_association / make_measure: `active = value < thresh`), NaN semantics (`if value:` on
   a float that is exactly 0, library NaN), thresh_filter (dropna over the columns that exist),
   the sorts, the greedy quantitative / qualitative filters, the n_best cut, the union over
   measures and the per-dtype loop.  The VALUES of the measures and the pairwise associations
   are inputs: exact rationals recomputed by the harness independently of AutoCarver, sent as
   integers over one common denominator per column (a strictly increasing transform of the float
   the implementation sorts on: H, R^2, V^2, T^4, 1 - sign(r) r^2; associations rho^2, r^2, V^2, T^4
   against thresh_corr^2 resp. ^4). *)
From AC.Model Require Import Base.

(* one requested measure.  (A second chi2-based measure is computed from the chi2 statistic of the
   first one — /repo 406fe09 — and therefore has the value of the stand-alone measure.) *)
Record mspec := mkM {
  m_ranking : bool;   (* produces a column named *_measure (chi2_measure does not) *)
  m_falsy   : bool;   (* `if value:` precedes the assignment: a float 0.0 becomes NaN *)
  m_gate    : bool;   (* outlier screening (iqr_measure: pct_iqr < thresh_iqr), not an association
                         measure: used by the specification predicate of CheckC14 only *)
  m_thresh  : Z;      (* thresh_<measure> on the scale of the column *)
  m_sthresh : Z }.    (* the same threshold on the scale of the specification strength *)

(* what the library call returns for one feature and one measure *)
Record raw := mkRaw {
  r_err : bool;       (* the call raises *)
  r_nan : bool;       (* the library returns NaN *)
  r_zero_nan : bool;  (* float-level oracle: the value is exactly 0 AND the float is 0.0 *)
  r_val : Z }.

Inductive cell := CMissing | CNaN | CVal (z : Z).

Record feat := mkFeat {
  f_id : nat;
  f_cnt_nan : Z;             (* number of missing rows *)
  f_cnt_mode : Z;            (* number of rows equal to the mode *)
  f_raw : list raw;          (* per requested measure *)
  f_spec : list (option Z) } (* specification strength per requested measure (CheckC14 only) *).

Record filt := mkFilter {
  fl_thresh : Z;                       (* thresh_corr on the scale of the matrix *)
  fl_mat : list (list (Z * bool)) }.   (* association of features i, j; bool = float-level oracle
                                          "reported above thresh_corr" when exactly equal to it *)

(* cnt / n < p / q   (n, q > 0) *)
Definition frac_lt (cnt n : Z) (t : Z * Z) : bool := cnt * snd t <? fst t * n.

(* make_measure folded over the requested measures *)
Fixpoint pipeline (active : bool) (ms : list mspec) (rs : list raw) : res (list cell) :=
  match ms, rs with
  | m :: ms', r :: rs' =>
      if active then
        if r_err r then InternalErr
        else
          let c := if r_nan r || (m_falsy m && (r_val r =? 0) && r_zero_nan r) then CNaN
                   else CVal (r_val r) in
          let a := match c with CVal z => z <? m_thresh m | _ => false end in
          do cs <- pipeline a ms' rs'; Ok (c :: cs)
      else
        do cs <- pipeline false ms' rs'; Ok (CMissing :: cs)
  | _, _ => Ok []
  end.

(* one row of the association table *)
Record row := mkRow { rid : nat; rbase : bool; rcells : list cell }.

Definition base_ok (n : Z) (tnan tmode : Z * Z) (f : feat) : bool :=
  frac_lt (f_cnt_nan f) n tnan && frac_lt (f_cnt_mode f) n tmode.

Fixpoint rows_of (n : Z) (tnan tmode : Z * Z) (ms : list mspec) (fs : list feat) : res (list row) :=
  match fs with
  | [] => Ok []
  | f :: t =>
      let b := base_ok n tnan tmode f in
      do cs <- pipeline b ms (f_raw f);
      do rest <- rows_of n tnan tmode ms t;
      Ok (mkRow (f_id f) b cs :: rest)
  end.

Definition is_missing (c : cell) : bool := match c with CMissing => true | _ => false end.
Definition is_val (c : cell) : bool := match c with CVal _ => true | _ => false end.
Definition cell_at (r : row) (j : nat) : cell := nth j (rcells r) CMissing.
Definition key (r : row) (j : nat) : Z := match cell_at r j with CVal z => z | _ => 0 end.

(* a column exists in the DataFrame iff some feature reached the measure *)
Definition col_exists (rows : list row) (j : nat) : bool :=
  existsb (fun r => negb (is_missing (cell_at r j))) rows.

Definition dflt_m : mspec := mkM false false false 0 0.

(* evaluated_measure_names: reversed order of the requested measures *)
Definition rank_cols (ms : list mspec) (rows : list row) : list nat :=
  rev (filter (fun j => col_exists rows j && m_ranking (nth j ms dflt_m)) (seq 0 (List.length ms))).

(* thresh_filter = dropna(axis=0) over the existing columns *)
Definition complete (nm : nat) (rows : list row) (r : row) : bool :=
  rbase r && forallb (fun j => negb (col_exists rows j) || is_val (cell_at r j)) (seq 0 nm).

(* stable sort, decreasing key (pandas sort_values(ascending=False) on <= 16 rows) *)
Fixpoint insert_desc {A} (k : A -> Z) (x : A) (l : list A) : list A :=
  match l with
  | [] => [x]
  | y :: t => if k x <? k y then y :: insert_desc k x t else x :: l
  end.

Definition sort_desc {A} (k : A -> Z) (l : list A) : list A := fold_right (insert_desc k) [] l.

(* quantitative_filter / qualitative_filter: a feature is dropped iff it is too associated with a
   better-ranked feature that was kept *)
Fixpoint greedy {A} (bad : A -> A -> bool) (kept : list A) (l : list A) : list A :=
  match l with
  | [] => []
  | f :: t => if existsb (bad f) kept then greedy bad kept t
              else f :: greedy bad (f :: kept) t
  end.

Definition apply_filters {A} (bads : list (A -> A -> bool)) (l : list A) : list A :=
  fold_left (fun acc b => greedy b [] acc) bads l.

(* _select_features on the complete rows: `cols` most significant first *)
Definition initial_order {A} (keyf : A -> nat -> Z) (cols : list nat) (comp : list A) : list A :=
  fold_right (fun j acc => sort_desc (fun r => keyf r j) acc) comp cols.

Definition selected_for {A} (keyf : A -> nat -> Z) (bads : list (A -> A -> bool)) (nbest : nat)
           (initial : list A) (j : nat) : list A :=
  firstn nbest (apply_filters bads (sort_desc (fun r => keyf r j) initial)).

Definition memb {A} (ideq : A -> A -> bool) (x : A) (l : list A) : bool := existsb (ideq x) l.

Definition select_core {A} (ideq : A -> A -> bool) (keyf : A -> nat -> Z)
           (bads : list (A -> A -> bool)) (nbest : nat) (cols : list nat) (comp : list A) : list A :=
  let initial := initial_order keyf cols comp in
  let sels := map (selected_for keyf bads nbest initial) cols in
  filter (fun r => existsb (memb ideq r) sels) initial.

Definition assoc_at (f : filt) (i j : nat) : Z * bool := nth j (nth i (fl_mat f) []) (0, false).

Definition bad_of (f : filt) (a b : row) : bool :=
  let '(v, gt) := assoc_at f (rid a) (rid b) in
  (fl_thresh f <? v) || ((v =? fl_thresh f) && gt).

Definition row_ideq (a b : row) : bool := Nat.eqb (rid a) (rid b).

(* input of one dtype *)
Record tin := mkTin {
  t_n : Z; t_tnan : Z * Z; t_tmode : Z * Z; t_nbest : nat;
  t_ms : list mspec; t_feats : list feat; t_filters : list filt }.

Definition table_of (t : tin) : res (list row) :=
  rows_of (t_n t) (t_tnan t) (t_tmode t) (t_ms t) (t_feats t).

Definition select_rows (t : tin) (rows : list row) : res (list row) :=
  let cols := rank_cols (t_ms t) rows in
  match cols with
  | [] => Ok []
  | _ =>
      let comp := filter (complete (List.length (t_ms t)) rows) rows in
      match comp, t_filters t with
      | [], _ :: _ :: _ => InternalErr      (* the first filter returns a list, the second fails *)
      | _, _ => Ok (select_core row_ideq key (map bad_of (t_filters t)) (t_nbest t) cols comp)
      end
  end.

Definition select_type (t : tin) : res (list nat) :=
  do rows <- table_of t;
  do sel <- select_rows t rows;
  Ok (map rid sel).

(* BaseSelector.__init__ assertion, then the dtypes in the order float, str *)
Fixpoint select_types (ts : list tin) : res (list (list nat)) :=
  match ts with
  | [] => Ok []
  | t :: rest => do a <- select_type t; do b <- select_types rest; Ok (a :: b)
  end.

Definition select_all (nbest nfeat : Z) (ts : list tin) : res (list (list nat)) :=
  if (0 <? nbest) && (nbest <=? nfeat + 1) then select_types ts else AssertErr.

(* ---- colsample < 1 (BaseSelector.select) -------------------------------------------------- *)
(* the shuffled feature list of a dtype is cut in k = int(1/colsample) samples: k - 1 slices of
   `chunks` features, the last sample takes all the rest (chunks = int(len(all features) //
   (1/colsample)): both integers are computed by the harness with CPython's float arithmetic;
   the shuffled order is an oracle recorded from the real run) *)
Definition col_samples {A} (chunks k : nat) (l : list A) : list (list A) :=
  map (fun i => firstn chunks (skipn (chunks * i) l)) (seq 0 (k - 1)) ++ [skipn (chunks * (k - 1)) l].

Definition sub_tin (t : tin) (ids : list nat) (nbest : nat) : tin :=
  mkTin (t_n t) (t_tnan t) (t_tmode t) nbest (t_ms t)
        (flat_map (fun i => match find (fun f => Nat.eqb (f_id f) i) (t_feats t) with
                            | Some f => [f] | None => [] end) ids)
        (t_filters t).

(* pre-selection of max(1, n_best // 2) features in every sample (/repo f64757f) *)
Fixpoint select_samples (t : tin) (samples : list (list nat)) (nb : nat) : res (list nat) :=
  match samples with
  | [] => Ok []
  | s :: rest => do a <- select_type (sub_tin t s nb); do b <- select_samples t rest nb; Ok (a ++ b)
  end.

(* final selection among the pre-selected features (`if any(best_features)`) *)
Definition select_type_cs (t : tin) (shuffled : list nat) (chunks k : nat) : res (list nat) :=
  do best <- select_samples t (col_samples chunks k shuffled) (Nat.max 1 (Nat.div (t_nbest t) 2));
  match best with
  | [] => Ok []
  | _ => select_type (sub_tin t best (t_nbest t))
  end.
