(* Float.v — IEEE-754 binary64 as used by the modelled code, on Coq.Floats.SpecFloat
   (pure Gallina specification functions: no primitive floats, no axioms).  No proofs here. *)
From Coq Require Import ZArith SpecFloat Bool List.
Import ListNotations.
Open Scope Z_scope.

Definition prec := 53.
Definition emax := 1024.

Notation fl := spec_float.

(* exact m * 2^e rounded to nearest-even binary64 *)
Definition f_of_dyadic (m e : Z) : fl := binary_normalize prec emax m e false.
Definition f_of_Z (z : Z) : fl := f_of_dyadic z 0.

Definition fdiv (a b : fl) : fl := SFdiv prec emax a b.
Definition fmul (a b : fl) : fl := SFmul prec emax a b.
Definition fadd (a b : fl) : fl := SFadd prec emax a b.
Definition fsub (a b : fl) : fl := SFsub prec emax a b.
Definition fabs (a : fl) : fl := SFabs a.
Definition fleb (a b : fl) : bool := SFleb a b.      (* false when either is NaN *)
Definition fltb (a b : fl) : bool := SFltb a b.
Definition feqb (a b : fl) : bool := SFeqb a b.
Definition fgeb (a b : fl) : bool := SFleb b a.

Definition f_is_nan (a : fl) : bool := match a with S754_nan => true | _ => false end.

(* python: a / b on ints-as-floats *)
Definition fdivZ (a b : Z) : fl := fdiv (f_of_Z a) (f_of_Z b).

(* numpy.isclose(a, b) with default rtol=1e-05, atol=1e-08, equal_nan=False:
     |a - b| <= atol + rtol * |b|   (all in binary64); equal infinities are close *)
Definition rtol : fl := f_of_dyadic 5902958103587057 (-69).   (* 1e-05 = 0x1.4f8b588e368f1p-17 *)
Definition atol : fl := f_of_dyadic 3022314549036573 (-78).   (* 1e-08 = 0x1.5798ee2308c3ap-27 *)

Definition f_is_inf (a : fl) : bool := match a with S754_infinity _ => true | _ => false end.

Definition isclose (a b : fl) : bool :=
  if f_is_nan a || f_is_nan b then false
  else if f_is_inf a || f_is_inf b then feqb a b
  else fleb (fabs (fsub a b)) (fadd atol (fmul rtol (fabs b))).

(* total comparison used for sorting rates: NaN last (pandas sort_values na_position='last') *)
Definition f_le_nanlast (a b : fl) : bool :=
  if f_is_nan b then true else if f_is_nan a then false else fleb a b.

(* floor of a finite non-negative float, as Z (used for quantile positions) *)
Definition f_floor (a : fl) : option Z :=
  match a with
  | S754_zero _ => Some 0
  | S754_finite s m e =>
      let v := if 0 <=? e then Z.pos m * 2 ^ e else Z.pos m / 2 ^ (- e) in
      if s then
        (if 0 <=? e then Some (- v)
         else if Z.eqb (Z.pos m mod 2 ^ (- e)) 0 then Some (- v) else Some (- v - 1))
      else Some v
  | _ => None
  end.

(* python round(x): round half to even, to Z *)
Definition f_round_half_even (a : fl) : option Z :=
  match a with
  | S754_zero _ => Some 0
  | S754_finite s m e =>
      let r :=
        if 0 <=? e then Z.pos m * 2 ^ e
        else
          let d := 2 ^ (- e) in
          let q := Z.pos m / d in
          let rem := Z.pos m mod d in
          if 2 * rem <? d then q
          else if d <? 2 * rem then q + 1
          else if Z.even q then q else q + 1 in
      Some (if s then - r else r)
  | _ => None
  end.

(* exact value of a finite float as (m, e), m*2^e; None for nan/inf *)
Definition f_to_dyadic (a : fl) : option (Z * Z) :=
  match a with
  | S754_zero _ => Some (0, 0)
  | S754_finite s m e => Some (if s then Z.neg m else Z.pos m, e)
  | _ => None
  end.
