(* Object.v — a fitted object as a state machine over frames (C07): transform is column-wise and,
   inside a column, row-wise after an all-or-nothing check; it returns the object unchanged.
   Frames are association lists column name -> cells (row order).  No proofs here. *)
From Coq Require Import List String Bool.
Import ListNotations.
From AC.Model Require Import Base GroupedList Labels Transform.

Definition column := list val.
Definition frame := list (string * column).
Definition oframe := list (string * list out).

Record fitted := mkFitted { fit_states : list (string * state) }.   (* kept feature -> state *)

Fixpoint flookup {A} (f : string) (m : list (string * A)) : option A :=
  match m with
  | [] => None
  | (k, a) :: t => if String.eqb f k then Some a else flookup f t
  end.

(* non-feature columns are returned as they are (raw cells) *)
Definition raw_col (c : column) : list out := map ORaw c.

(* transform of one column of X: fitted feature -> transform_col, other column -> unchanged *)
Definition transform_column (o : fitted) (name : string) (c : column) : res (list out) :=
  match flookup name (fit_states o) with
  | Some st => transform_col st c
  | None => Ok (raw_col c)
  end.

(* the first failing column (in column order) decides the exception *)
Fixpoint transform_columns (o : fitted) (X : frame) : res oframe :=
  match X with
  | [] => Ok []
  | (name, c) :: t =>
      do oc <- transform_column o name c ;
      do ot <- transform_columns o t ;
      Ok ((name, oc) :: ot)
  end.

(* _prepare_data: every fitted feature must be a column of X *)
Definition columns_present (o : fitted) (X : frame) : bool :=
  forallb (fun fs => match flookup (fst fs) X with Some _ => true | None => false end) (fit_states o).

Definition transform_frame (o : fitted) (X : frame) : res oframe :=
  if negb (columns_present o X) then AssertErr else transform_columns o X.

(* row selection / reordering / re-indexing of a frame: the list of kept row positions *)
Definition select_rows {A} (sel : list nat) (c : list A) : list (option A) := map (fun i => nth_error c i) sel.
Fixpoint somes {A} (l : list (option A)) : list A :=
  match l with [] => [] | Some a :: t => a :: somes t | None :: t => somes t end.
Definition take_rows {A} (sel : list nat) (c : list A) : list A := somes (select_rows sel c).
Definition take_frame {A} (sel : list nat) (X : list (string * list A)) : list (string * list A) :=
  map (fun nc => (fst nc, take_rows sel (snd nc))) X.

(* the object as a state machine: transform returns the object untouched *)
Inductive call := CTransform (X : frame).
Definition step (o : fitted) (c : call) : fitted * res oframe :=
  match c with CTransform X => (o, transform_frame o X) end.
Fixpoint run (o : fitted) (cs : list call) : fitted * list (res oframe) :=
  match cs with
  | [] => (o, [])
  | c :: t => let '(o1, r) := step o c in let '(o2, rs) := run o1 t in (o2, r :: rs)
  end.
