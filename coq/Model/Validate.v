(* Validate.v — the validation pipeline of __init__ / _prepare_data / fit / transform as ordered
   lists of checks interleaved with the writes to the object (property C19).  No proofs here.

   An object is {fitted; state}.  A call is a list of steps executed in order:
     Check p     `assert p`            -> AssertionError when p is false
     Crash p     an operation that raises something else (TypeError, KeyError, ValueError, ...)
                 when p is false: a place where the code has NO assertion
     Guard       `assert not self.is_fitted`
     Write w     a write to the object's state (values_orders, features, labels_per_values, ...)
     SetFitted b `self.is_fitted = b`
   Predicates see the object's current `fitted` flag and the abstract input record below
   (what is wrong with the arguments of the call; filled by the harness from the malformation it
   injected).  Two trees are modelled: `Current` = the code of /repo as it is now (after the
   fix: commits a2fb996 guard first in every fit, ce46eee length test in the index assertion,
   ff4805a str test before unique(y), cd23d68 Discretizer overlap assertion, 65b7c26
   ContinuousDiscretizer._prepare_data, 2024976 its numeric assertion, 4b0ac8a raw columns
   asserted before _cast_features);
   `Before` = the lists as they were before those commits, kept for the historical refutation
   records (the refit guard sat in BaseDiscretizer.fit, which every subclass calls LAST). *)
From Coq Require Import List Bool Arith.
Import ListNotations.

Inductive cls := KDiscretizer | KQuantitative | KQualitative | KOrdinal | KCategorical
               | KContinuous | KBinary | KContinuousCarver | KMulticlass.
Inductive entry := EInit | EFit | ERefit | ETransform.
Inductive mal := MNone | MXNotFrame | MYNotSeries | MYNaN | MIndexMismatch | MMissingCol
               | MNClasses | MYStr | MFeatureOverlap | MQuantStr | MOrdinalUnknown | MSortBy
               | MSecondFit.
Inductive result := ROk | RAssert | ROther.
Inductive tree := Before | Current.

Definition all_cls := [KDiscretizer; KQuantitative; KQualitative; KOrdinal; KCategorical;
                       KContinuous; KBinary; KContinuousCarver; KMulticlass].
Definition all_entries := [EInit; EFit; ERefit; ETransform].
Definition all_mals := [MXNotFrame; MYNotSeries; MYNaN; MIndexMismatch; MMissingCol; MNClasses;
                        MYStr; MFeatureOverlap; MQuantStr; MOrdinalUnknown; MSortBy; MSecondFit].

Definition cls_eqb (a b : cls) : bool :=
  match a, b with
  | KDiscretizer, KDiscretizer | KQuantitative, KQuantitative | KQualitative, KQualitative
  | KOrdinal, KOrdinal | KCategorical, KCategorical | KContinuous, KContinuous
  | KBinary, KBinary | KContinuousCarver, KContinuousCarver | KMulticlass, KMulticlass => true
  | _, _ => false
  end.
Definition entry_eqb (a b : entry) : bool :=
  match a, b with
  | EInit, EInit | EFit, EFit | ERefit, ERefit | ETransform, ETransform => true
  | _, _ => false
  end.
Definition mal_eqb (a b : mal) : bool :=
  match a, b with
  | MNone, MNone | MXNotFrame, MXNotFrame | MYNotSeries, MYNotSeries | MYNaN, MYNaN
  | MIndexMismatch, MIndexMismatch | MMissingCol, MMissingCol | MNClasses, MNClasses
  | MYStr, MYStr | MFeatureOverlap, MFeatureOverlap | MQuantStr, MQuantStr
  | MOrdinalUnknown, MOrdinalUnknown | MSortBy, MSortBy | MSecondFit, MSecondFit => true
  | _, _ => false
  end.
Definition result_eqb (a b : result) : bool :=
  match a, b with
  | ROk, ROk | RAssert, RAssert | ROther, ROther => true
  | _, _ => false
  end.

Definition is_carver (c : cls) : bool :=
  match c with KBinary | KContinuousCarver | KMulticlass => true | _ => false end.
Definition has_quant_features (c : cls) : bool :=
  match c with KQualitative | KOrdinal | KCategorical => false | _ => true end.
Definition has_ordinal_features (c : cls) : bool :=
  match c with KQuantitative | KCategorical | KContinuous => false | _ => true end.

(* ---- the abstract input of a call ------------------------------------------------------- *)
Record input := mkInput {
  x_is_frame : bool;            (* isinstance(X, DataFrame) *)
  x_is_none : bool;             (* X is None (then x_is_frame = false) *)
  y_given : bool;               (* y is not None *)
  y_is_series : bool;           (* isinstance(y, Series) *)
  y_has_nan : bool;
  index_matches : bool;         (* all(y.index == X.index) *)
  index_same_len : bool;        (* len(y) == len(X): otherwise the comparison itself raises *)
  columns_present : bool;       (* every requested feature is a column of X *)
  dev_given : bool;             (* X_dev is not None (carvers) *)
  xdev_is_frame : bool;
  ydev_is_series : bool;
  ydev_has_nan : bool;
  dev_index_matches : bool;
  dev_columns_present : bool;
  n_classes : nat;              (* number of distinct values of y *)
  y_is_01 : bool;               (* 0 and 1 are both values of y *)
  y_has_str : bool;             (* some value of y is a str *)
  y_all_str : bool;             (* every value of y is a str *)
  feature_overlap : bool;       (* a feature listed as quantitative AND qualitative/ordinal *)
  quant_has_str : bool;         (* a str cell in a quantitative column of X *)
  ordinal_unknown_value : bool; (* a value of an ordinal column of X is absent from its ranking *)
  sort_by_ok : bool;            (* sort_by is implemented for the carver type *)
  has_ordinal : bool;           (* configuration: the object was given an ordinal feature *)
  ydev_given : bool;            (* y_dev is not None (meaningful when dev_given) *)
  dev_index_same_len : bool;    (* len(y_dev) == len(X_dev) *)
  ydev_classes_ok : bool;       (* BinaryCarver: y_dev holds exactly 0 and 1; MulticlassCarver: y_dev
                                   holds exactly the classes of y; true for ContinuousCarver *)
  ydev_has_str : bool;          (* some value of y_dev is a str *)
  ordinal_id_like : bool        (* the most frequent level of the ordinal feature is rarer than min_freq:
                                   QualitativeDiscretizer._prepare_data drops the feature ("checking for
                                   ids") BEFORE its values are checked against the ranking *)
}.

(* ---- objects, steps, runs --------------------------------------------------------------- *)
Record obj (S : Type) := mkObj { fitted : bool; state : S }.
Arguments mkObj {S} _ _.
Arguments fitted {S} _.
Arguments state {S} _.

Inductive step (S : Type) :=
| Check (p : bool -> input -> bool)
| Crash (p : bool -> input -> bool)
| Guard
| Write (w : S -> input -> S)
| SetFitted (b : bool).
Arguments Check {S} _.
Arguments Crash {S} _.
Arguments Guard {S}.
Arguments Write {S} _.
Arguments SetFitted {S} _.

Fixpoint run_call {S : Type} (l : list (step S)) (o : obj S) (i : input) : result * obj S :=
  match l with
  | [] => (ROk, o)
  | Check p :: r => if p (fitted o) i then run_call r o i else (RAssert, o)
  | Crash p :: r => if p (fitted o) i then run_call r o i else (ROther, o)
  | Guard :: r => if fitted o then (RAssert, o) else run_call r o i
  | Write w :: r => run_call r (mkObj (fitted o) (w (state o) i)) i
  | SetFitted b :: r => run_call r (mkObj b (state o)) i
  end.

Definition is_write {S} (s : step S) : bool :=
  match s with Write _ | SetFitted _ => true | _ => false end.
Definition is_guard {S} (s : step S) : bool :=
  match s with Guard => true | _ => false end.

(* every step that can fail precedes every write *)
Fixpoint checks_first {S} (l : list (step S)) : bool :=
  match l with
  | [] => true
  | s :: r => if is_write s then forallb is_write r else checks_first r
  end.

(* no write is reachable by a fitted object: nothing is written before the first Guard
   (a list without Guard must not write at all) *)
Fixpoint writes_guarded {S} (l : list (step S)) : bool :=
  match l with
  | [] => true
  | s :: r => if is_guard s then true else if is_write s then false else writes_guarded r
  end.

(* all the non-assertion failure points of a list are passed by (f, i) *)
Definition crash_free {S} (l : list (step S)) (f : bool) (i : input) : bool :=
  forallb (fun s => match s with Crash p => p f i | _ => true end) l.

(* ---- the checks of the code, as predicates ----------------------------------------------- *)
(* BaseDiscretizer._prepare_data(X, y): everything is skipped when X is None; the y checks are
   skipped when y is None *)
Definition y_checked (i : input) : bool := negb (x_is_none i) && y_given i.
Definition c_x_frame (_ : bool) (i : input) := x_is_none i || x_is_frame i.
Definition k_cast (f : bool) (i : input) := negb f || x_is_none i || columns_present i.
Definition c_cols (_ : bool) (i : input) := x_is_none i || columns_present i.
Definition c_y_series (_ : bool) (i : input) := negb (y_checked i) || y_is_series i.
Definition c_y_nan (_ : bool) (i : input) := negb (y_checked i) || negb (y_has_nan i).
Definition k_idx_len (_ : bool) (i : input) := negb (y_checked i) || index_same_len i.
Definition c_idx (_ : bool) (i : input) := negb (y_checked i) || index_matches i.
(* after ce46eee: `len(y.index) == len(X.index) and all(y.index == X.index)` *)
Definition c_idx_len (_ : bool) (i : input) := negb (y_checked i) || index_same_len i.
(* the same on (X_dev, y_dev) *)
Definition c_xdev_frame (_ : bool) (i : input) := negb (dev_given i) || xdev_is_frame i.
Definition k_cast_dev (f : bool) (i : input) := negb f || negb (dev_given i) || dev_columns_present i.
Definition c_dev_cols (_ : bool) (i : input) := negb (dev_given i) || dev_columns_present i.
Definition c_ydev_series (_ : bool) (i : input) := negb (dev_given i) || ydev_is_series i.
Definition c_ydev_nan (_ : bool) (i : input) := negb (dev_given i) || negb (ydev_has_nan i).
Definition c_dev_idx (_ : bool) (i : input) := negb (dev_given i) || dev_index_matches i.
(* current tree: the checks on y_dev are skipped when y_dev is None *)
Definition ydev_checked (i : input) : bool := dev_given i && ydev_given i.
Definition c_ydev_series' (_ : bool) (i : input) := negb (ydev_checked i) || ydev_is_series i.
Definition c_ydev_nan' (_ : bool) (i : input) := negb (ydev_checked i) || negb (ydev_has_nan i).
Definition c_dev_idx_len (_ : bool) (i : input) := negb (ydev_checked i) || dev_index_same_len i.
Definition c_dev_idx' (_ : bool) (i : input) := negb (ydev_checked i) || dev_index_matches i.
(* b747a9b BinaryCarver: y_dev binary too; MulticlassCarver: classes of y and y_dev coincide *)
Definition c_ydev_classes (_ : bool) (i : input) := negb (ydev_checked i) || ydev_classes_ok i.
(* 9e3db28 BaseCarver._prepare_data: `if X_dev is not None: assert y_dev is not None` *)
Definition k_ydev_given (_ : bool) (i : input) := negb (dev_given i) || ydev_given i.
(* 9e3db28 ContinuousCarver._prepare_data: no str in y_dev *)
Definition k_ydev_no_str (_ : bool) (i : input) := negb (ydev_checked i) || negb (ydev_has_str i).
(* carvers *)
Definition c_y_given (_ : bool) (i : input) := y_given i.
Definition c_y_01 (_ : bool) (i : input) := y_is_01 i.
Definition c_two_classes (_ : bool) (i : input) := Nat.eqb (n_classes i) 2.
Definition c_many_classes (_ : bool) (i : input) := Nat.ltb 2 (n_classes i).
Definition k_y_sortable (_ : bool) (i : input) := negb (y_has_str i) || y_all_str i.
Definition c_y_no_str (_ : bool) (i : input) := negb (y_has_str i).
Definition c_sort_by (_ : bool) (i : input) := sort_by_ok i.
Definition c_no_overlap (_ : bool) (i : input) := negb (feature_overlap i).
(* content of X *)
Definition k_x_usable (_ : bool) (i : input) := negb (x_is_none i).
Definition k_x_frame (_ : bool) (i : input) := x_is_frame i.
Definition k_cols (_ : bool) (i : input) := columns_present i.
Definition c_quant_numeric (_ : bool) (i : input) := negb (quant_has_str i).
Definition c_ordinal_known (_ : bool) (i : input) := negb (ordinal_unknown_value i).
(* at fit, through QualitativeDiscretizer._prepare_data: an id-like ordinal feature is removed first,
   its values are then checked by nobody (known finding O48) *)
Definition c_ordinal_known_fit (_ : bool) (i : input) := negb (ordinal_unknown_value i) || ordinal_id_like i.
(* MulticlassCarver.fit on a fitted object: the per-class BinaryCarver is built with the raw
   ordinal features but the casted values_orders, its Discretizer refuses ("No ordering was
   provided") — an assertion reached only when an ordinal feature was given *)
Definition c_multiclass_inner_orders (f : bool) (i : input) := negb (f && has_ordinal i).

(* one write per modelled assignment; the concrete state transformer is the parameter `w` *)
(* ---- Before the fix commits ------------------------------------------------------------- *)
Definition pd_before {S : Type} (cast : bool) : list (step S) :=
  [Check c_x_frame] ++ (if cast then [Crash k_cast] else []) ++
  [Check c_cols; Check c_y_series; Check c_y_nan; Crash k_idx_len; Check c_idx].
Definition pd_dev_before {S : Type} (cast : bool) : list (step S) :=
  [Check c_xdev_frame] ++ (if cast then [Crash k_cast_dev] else []) ++
  [Check c_dev_cols; Check c_ydev_series; Check c_ydev_nan; Check c_dev_idx].

(* BaseDiscretizer.fit: guard, labels_per_values, is_fitted = True (the "missing values_orders"
   assertion cannot fail for the nine classes: their constructors / inner discretizers have
   already required an order for every feature) *)
Definition base_fit {S : Type} (w : S -> input -> S) : list (step S) := [Guard; Write w; SetFitted true].

Definition fit_before {S : Type} (w : S -> input -> S) (c : cls) : list (step S) :=
  match c with
  | KDiscretizer =>
      pd_before false ++ [Crash k_x_usable; Check c_ordinal_known; Write w; Check c_quant_numeric; Write w]
      ++ base_fit w
  | KQuantitative =>
      pd_before false ++ [Crash k_x_usable; Check c_quant_numeric; Write w; Write w] ++ base_fit w
  | KQualitative =>
      pd_before false ++ [Crash k_x_usable; Write w; Check c_ordinal_known; Write w] ++ base_fit w
  | KOrdinal =>
      pd_before false ++ [Crash k_x_usable; Write w; Write w] ++ base_fit w
  | KCategorical =>
      pd_before false ++ [Crash k_x_usable; Write w; Write w; Write w] ++ base_fit w
  | KContinuous =>
      [Crash k_x_frame; Crash k_cols; Crash c_quant_numeric; Write w] ++ base_fit w
  | KBinary =>
      pd_before false ++ pd_dev_before false ++
      [Check c_y_given; Check c_y_01; Check c_two_classes; Crash k_x_usable;
       Check c_ordinal_known; Check c_quant_numeric; Write w; Write w] ++ base_fit w
  | KContinuousCarver =>
      pd_before false ++ pd_dev_before false ++
      [Check c_y_given; Crash k_y_sortable; Check c_many_classes; Check c_y_no_str; Crash k_x_usable;
       Check c_ordinal_known; Check c_quant_numeric; Write w; Write w] ++ base_fit w
  | KMulticlass =>
      pd_before true ++ pd_dev_before true ++
      [Check c_y_given; Check c_many_classes; Crash k_x_usable; Check c_multiclass_inner_orders;
       Check c_ordinal_known; Check c_quant_numeric;
       Write w; SetFitted false; Write w] ++ base_fit w
  end.

Definition transform_before {S : Type} (c : cls) : list (step S) :=
  pd_before (cls_eqb c KMulticlass) ++ [Crash k_x_usable; Crash c_quant_numeric; Check c_ordinal_known].

Definition init_before {S : Type} (w : S -> input -> S) (c : cls) : list (step S) :=
  match c with
  | KBinary | KMulticlass | KContinuousCarver => [Check c_sort_by; Check c_no_overlap; Write w]
  | _ => [Write w]
  end.

(* ---- Current ---------------------------------------------------------------------------- *)
(* BaseDiscretizer._prepare_data: the raw columns (keys of features_casting) are asserted before
   _cast_features, the casted ones after it (the same abstract fact `columns_present`); the index
   assertion tests the lengths first *)
Definition pd {S : Type} : list (step S) :=
  [Check c_x_frame; Check c_cols; Check c_cols; Check c_y_series; Check c_y_nan; Check c_idx_len; Check c_idx].
Definition pd_dev {S : Type} : list (step S) :=
  [Check c_xdev_frame; Check c_dev_cols; Check c_dev_cols; Check c_ydev_series'; Check c_ydev_nan';
   Check c_dev_idx_len; Check c_dev_idx'].

(* every fit starts with _check_is_not_fitted(); BaseDiscretizer.fit still ends the call *)
Definition fit_current {S : Type} (w : S -> input -> S) (c : cls) : list (step S) :=
  Guard ::
  match c with
  | KDiscretizer =>
      pd ++ [Crash k_x_usable; Check c_ordinal_known_fit; Write w; Check c_quant_numeric; Write w]
      ++ base_fit w
  | KQuantitative =>
      pd ++ [Crash k_x_usable; Check c_quant_numeric; Write w; Write w] ++ base_fit w
  | KQualitative =>
      pd ++ [Crash k_x_usable; Write w; Check c_ordinal_known_fit; Write w] ++ base_fit w
  | KOrdinal =>
      pd ++ [Crash k_x_usable; Write w; Write w] ++ base_fit w
  | KCategorical =>
      pd ++ [Crash k_x_usable; Write w; Write w; Write w] ++ base_fit w
  | KContinuous =>
      (* 65b7c26 _prepare_data, 2024976 assertion that no quantitative cell is a str *)
      pd ++ [Crash k_x_usable; Check c_quant_numeric; Write w] ++ base_fit w
  | KBinary =>
      pd ++ pd_dev ++
      [Check c_y_given; Check k_ydev_given; Check c_y_01; Check c_two_classes; Check c_ydev_classes;
       Crash k_x_usable; Check c_ordinal_known_fit; Check c_quant_numeric; Write w; Write w] ++ base_fit w
  | KContinuousCarver =>
      pd ++ pd_dev ++
      [Check c_y_given; Check k_ydev_given; Check c_y_no_str; Check c_many_classes; Check k_ydev_no_str;
       Crash k_x_usable; Check c_ordinal_known_fit; Check c_quant_numeric; Write w; Write w] ++ base_fit w
  | KMulticlass =>
      pd ++ pd_dev ++
      [Check c_y_given; Check k_ydev_given; Check c_many_classes; Check c_ydev_classes; Crash k_x_usable;
       Check c_multiclass_inner_orders; Check c_ordinal_known_fit; Check c_quant_numeric;
       Write w; SetFitted false; Write w] ++ base_fit w
  end.

(* BaseDiscretizer.transform (no subclass overrides it): private _prepare_data, quantitative
   lookup (numpy comparison: no assertion on str cells), qualitative _check_new_values *)
Definition transform_current {S : Type} (c : cls) : list (step S) :=
  pd ++ [Crash k_x_usable; Crash c_quant_numeric; Check c_ordinal_known].

Definition init_current {S : Type} (w : S -> input -> S) (c : cls) : list (step S) :=
  match c with
  | KBinary | KMulticlass | KContinuousCarver => [Check c_sort_by; Check c_no_overlap; Write w]
  | KDiscretizer => [Check c_no_overlap; Write w]
  | _ => [Write w]
  end.

Definition steps {S : Type} (w : S -> input -> S) (t : tree) (c : cls) (e : entry) : list (step S) :=
  match t, e with
  | Before, EInit => init_before w c
  | Before, (EFit | ERefit) => fit_before w c
  | Before, ETransform => transform_before c
  | Current, EInit => init_current w c
  | Current, (EFit | ERefit) => fit_current w c
  | Current, ETransform => transform_current c
  end.

(* ---- which malformation an input exhibits ------------------------------------------------ *)
Definition dev_side (c : cls) (e : entry) (i : input) : bool :=
  is_carver c && negb (entry_eqb e ETransform) && dev_given i.

Definition exhibits (c : cls) (e : entry) (m : mal) (f : bool) (i : input) : bool :=
  match m with
  | MNone => false
  | MXNotFrame => negb (x_is_frame i) || (dev_side c e i && negb (xdev_is_frame i))
  | MYNotSeries => (y_given i && negb (y_is_series i)) || (is_carver c && negb (entry_eqb e ETransform) && negb (y_given i))
                   || (dev_side c e i && (negb (ydev_given i) || negb (ydev_is_series i)))
  | MYNaN => (y_given i && y_has_nan i) || (dev_side c e i && ydev_given i && ydev_has_nan i)
  | MIndexMismatch => (y_given i && negb (index_matches i))
                      || (dev_side c e i && ydev_given i && negb (dev_index_matches i))
  | MMissingCol => negb (columns_present i) || (dev_side c e i && negb (dev_columns_present i))
  | MNClasses => match c with
                 | KBinary => negb (y_is_01 i && Nat.eqb (n_classes i) 2)
                              || (dev_side c e i && ydev_given i && negb (ydev_classes_ok i))
                 | KMulticlass => negb (Nat.ltb 2 (n_classes i))
                                  || (dev_side c e i && ydev_given i && negb (ydev_classes_ok i))
                 | KContinuousCarver => negb (Nat.ltb 2 (n_classes i))
                 | _ => false
                 end
  | MYStr => match c with
             | KBinary => (y_has_str i && negb (y_is_01 i))
                          || (dev_side c e i && ydev_given i && ydev_has_str i && negb (ydev_classes_ok i))
             | KContinuousCarver => y_has_str i || (dev_side c e i && ydev_given i && ydev_has_str i)
             | _ => false
             end
  | MFeatureOverlap => feature_overlap i
  | MQuantStr => has_quant_features c && quant_has_str i
  | MOrdinalUnknown => has_ordinal_features c && ordinal_unknown_value i
  | MSortBy => negb (sort_by_ok i)
  | MSecondFit => f
  end.

(* the (class, entry point, malformed class) triples the property talks about = what the
   generator can express *)
Definition in_scope (c : cls) (e : entry) (m : mal) : bool :=
  match e, m with
  | _, MNone => false
  | EInit, MFeatureOverlap => is_carver c || cls_eqb c KDiscretizer
  | EInit, MSortBy => is_carver c
  | EInit, _ => false
  | ERefit, MSecondFit => true
  | _, MSecondFit => false
  | _, (MFeatureOverlap | MSortBy) => false
  | _, (MXNotFrame | MYNotSeries | MYNaN | MIndexMismatch | MMissingCol) => true
  | ETransform, (MNClasses | MYStr) => false
  | _, MNClasses => is_carver c
  | _, MYStr => cls_eqb c KBinary || cls_eqb c KContinuousCarver
  | _, MQuantStr => has_quant_features c
  | _, MOrdinalUnknown => has_ordinal_features c
  end.

(* the triples for which the current code HAS an assertion; in_scope && negb guarded = the
   places where it has none (known findings, see C19_unguarded_refuted) *)
Definition guarded (c : cls) (e : entry) (m : mal) : bool :=
  in_scope c e m &&
  match e, m, c with
  | ERefit, _, _ => true                                   (* the guard *)
  | EFit, MOrdinalUnknown, KOrdinal => false               (* OrdinalDiscretizer: no _check_new_values *)
  | ETransform, MQuantStr, _ => false                      (* numpy comparison raises *)
  | _, _, _ => true
  end.

(* the known gap inside a guarded triple that is not a crash: the unknown ordinal value of an
   id-like ordinal feature at a first fit *)
Definition gap_free (e : entry) (m : mal) (i : input) : bool :=
  negb (mal_eqb m MOrdinalUnknown && entry_eqb e EFit && ordinal_id_like i).

Definition fitted_at (e : entry) : bool :=
  match e with ERefit | ETransform => true | _ => false end.

(* ---- concrete state: a version counter (every write bumps it) ---------------------------- *)
Definition bump (s : nat) (_ : input) : nat := Datatypes.S s.
Definition csteps (t : tree) (c : cls) (e : entry) : list (step nat) := steps bump t c e.

(* a fully valid call *)
Definition valid_input (c : cls) (with_dev : bool) (ordinal : bool) : input :=
  mkInput true false true true false true true true
          (is_carver c && with_dev) true true false true true
          (match c with KContinuousCarver => 9 | KMulticlass => 3 | _ => 2 end)
          (match c with KContinuousCarver | KMulticlass => false | _ => true end)
          false false false false false true (has_ordinal_features c && ordinal)
          true true true false false.

(* single-fault inputs used as witnesses *)
Definition set_x_not_frame (i : input) :=
  mkInput false false (y_given i) (y_is_series i) (y_has_nan i) (index_matches i) (index_same_len i)
          (columns_present i) (dev_given i) (xdev_is_frame i) (ydev_is_series i) (ydev_has_nan i)
          (dev_index_matches i) (dev_columns_present i) (n_classes i) (y_is_01 i) (y_has_str i) (y_all_str i)
          (feature_overlap i) (quant_has_str i) (ordinal_unknown_value i) (sort_by_ok i) (has_ordinal i)
          (ydev_given i) (dev_index_same_len i) (ydev_classes_ok i) (ydev_has_str i) (ordinal_id_like i).
Definition set_x_none (i : input) :=
  mkInput false true (y_given i) (y_is_series i) (y_has_nan i) (index_matches i) (index_same_len i)
          (columns_present i) (dev_given i) (xdev_is_frame i) (ydev_is_series i) (ydev_has_nan i)
          (dev_index_matches i) (dev_columns_present i) (n_classes i) (y_is_01 i) (y_has_str i) (y_all_str i)
          (feature_overlap i) (quant_has_str i) (ordinal_unknown_value i) (sort_by_ok i) (has_ordinal i)
          (ydev_given i) (dev_index_same_len i) (ydev_classes_ok i) (ydev_has_str i) (ordinal_id_like i).
Definition set_y_not_series (i : input) :=
  mkInput (x_is_frame i) (x_is_none i) (y_given i) false (y_has_nan i) (index_matches i) (index_same_len i)
          (columns_present i) (dev_given i) (xdev_is_frame i) (ydev_is_series i) (ydev_has_nan i)
          (dev_index_matches i) (dev_columns_present i) (n_classes i) (y_is_01 i) (y_has_str i) (y_all_str i)
          (feature_overlap i) (quant_has_str i) (ordinal_unknown_value i) (sort_by_ok i) (has_ordinal i)
          (ydev_given i) (dev_index_same_len i) (ydev_classes_ok i) (ydev_has_str i) (ordinal_id_like i).
Definition set_y_nan (i : input) :=
  mkInput (x_is_frame i) (x_is_none i) (y_given i) (y_is_series i) true (index_matches i) (index_same_len i)
          (columns_present i) (dev_given i) (xdev_is_frame i) (ydev_is_series i) (ydev_has_nan i)
          (dev_index_matches i) (dev_columns_present i) (n_classes i) (y_is_01 i) (y_has_str i) (y_all_str i)
          (feature_overlap i) (quant_has_str i) (ordinal_unknown_value i) (sort_by_ok i) (has_ordinal i)
          (ydev_given i) (dev_index_same_len i) (ydev_classes_ok i) (ydev_has_str i) (ordinal_id_like i).
Definition set_index_mismatch (same_len : bool) (i : input) :=
  mkInput (x_is_frame i) (x_is_none i) (y_given i) (y_is_series i) (y_has_nan i) false same_len
          (columns_present i) (dev_given i) (xdev_is_frame i) (ydev_is_series i) (ydev_has_nan i)
          (dev_index_matches i) (dev_columns_present i) (n_classes i) (y_is_01 i) (y_has_str i) (y_all_str i)
          (feature_overlap i) (quant_has_str i) (ordinal_unknown_value i) (sort_by_ok i) (has_ordinal i)
          (ydev_given i) (dev_index_same_len i) (ydev_classes_ok i) (ydev_has_str i) (ordinal_id_like i).
Definition set_missing_col (i : input) :=
  mkInput (x_is_frame i) (x_is_none i) (y_given i) (y_is_series i) (y_has_nan i) (index_matches i) (index_same_len i)
          false (dev_given i) (xdev_is_frame i) (ydev_is_series i) (ydev_has_nan i)
          (dev_index_matches i) (dev_columns_present i) (n_classes i) (y_is_01 i) (y_has_str i) (y_all_str i)
          (feature_overlap i) (quant_has_str i) (ordinal_unknown_value i) (sort_by_ok i) (has_ordinal i)
          (ydev_given i) (dev_index_same_len i) (ydev_classes_ok i) (ydev_has_str i) (ordinal_id_like i).
Definition set_y_mixed_str (i : input) :=
  mkInput (x_is_frame i) (x_is_none i) (y_given i) (y_is_series i) (y_has_nan i) (index_matches i) (index_same_len i)
          (columns_present i) (dev_given i) (xdev_is_frame i) (ydev_is_series i) (ydev_has_nan i)
          (dev_index_matches i) (dev_columns_present i) (n_classes i) (y_is_01 i) true false
          (feature_overlap i) (quant_has_str i) (ordinal_unknown_value i) (sort_by_ok i) (has_ordinal i)
          (ydev_given i) (dev_index_same_len i) (ydev_classes_ok i) (ydev_has_str i) (ordinal_id_like i).
Definition set_overlap (i : input) :=
  mkInput (x_is_frame i) (x_is_none i) (y_given i) (y_is_series i) (y_has_nan i) (index_matches i) (index_same_len i)
          (columns_present i) (dev_given i) (xdev_is_frame i) (ydev_is_series i) (ydev_has_nan i)
          (dev_index_matches i) (dev_columns_present i) (n_classes i) (y_is_01 i) (y_has_str i) (y_all_str i)
          true (quant_has_str i) (ordinal_unknown_value i) (sort_by_ok i) (has_ordinal i)
          (ydev_given i) (dev_index_same_len i) (ydev_classes_ok i) (ydev_has_str i) (ordinal_id_like i).
Definition set_quant_str (i : input) :=
  mkInput (x_is_frame i) (x_is_none i) (y_given i) (y_is_series i) (y_has_nan i) (index_matches i) (index_same_len i)
          (columns_present i) (dev_given i) (xdev_is_frame i) (ydev_is_series i) (ydev_has_nan i)
          (dev_index_matches i) (dev_columns_present i) (n_classes i) (y_is_01 i) (y_has_str i) (y_all_str i)
          (feature_overlap i) true (ordinal_unknown_value i) (sort_by_ok i) (has_ordinal i)
          (ydev_given i) (dev_index_same_len i) (ydev_classes_ok i) (ydev_has_str i) (ordinal_id_like i).
Definition set_ordinal_unknown (i : input) :=
  mkInput (x_is_frame i) (x_is_none i) (y_given i) (y_is_series i) (y_has_nan i) (index_matches i) (index_same_len i)
          (columns_present i) (dev_given i) (xdev_is_frame i) (ydev_is_series i) (ydev_has_nan i)
          (dev_index_matches i) (dev_columns_present i) (n_classes i) (y_is_01 i) (y_has_str i) (y_all_str i)
          (feature_overlap i) (quant_has_str i) true (sort_by_ok i) true
          (ydev_given i) (dev_index_same_len i) (ydev_classes_ok i) (ydev_has_str i) (ordinal_id_like i).

Definition set_one_class (i : input) :=
  mkInput (x_is_frame i) (x_is_none i) (y_given i) (y_is_series i) (y_has_nan i) (index_matches i) (index_same_len i) (columns_present i) (dev_given i) (xdev_is_frame i) (ydev_is_series i) (ydev_has_nan i) (dev_index_matches i) (dev_columns_present i) 1 false (y_has_str i) (y_all_str i) (feature_overlap i) (quant_has_str i) (ordinal_unknown_value i) (sort_by_ok i) (has_ordinal i)
          (ydev_given i) (dev_index_same_len i) (ydev_classes_ok i) (ydev_has_str i) (ordinal_id_like i).
Definition set_y_all_str (i : input) :=
  mkInput (x_is_frame i) (x_is_none i) (y_given i) (y_is_series i) (y_has_nan i) (index_matches i) (index_same_len i) (columns_present i) (dev_given i) (xdev_is_frame i) (ydev_is_series i) (ydev_has_nan i) (dev_index_matches i) (dev_columns_present i) (n_classes i) false true true (feature_overlap i) (quant_has_str i) (ordinal_unknown_value i) (sort_by_ok i) (has_ordinal i)
          (ydev_given i) (dev_index_same_len i) (ydev_classes_ok i) (ydev_has_str i) (ordinal_id_like i).
Definition set_bad_sort_by (i : input) :=
  mkInput (x_is_frame i) (x_is_none i) (y_given i) (y_is_series i) (y_has_nan i) (index_matches i) (index_same_len i) (columns_present i) (dev_given i) (xdev_is_frame i) (ydev_is_series i) (ydev_has_nan i) (dev_index_matches i) (dev_columns_present i) (n_classes i) (y_is_01 i) (y_has_str i) (y_all_str i) (feature_overlap i) (quant_has_str i) (ordinal_unknown_value i) false (has_ordinal i)
          (ydev_given i) (dev_index_same_len i) (ydev_classes_ok i) (ydev_has_str i) (ordinal_id_like i).

Definition inject (m : mal) (i : input) : input :=
  match m with
  | MXNotFrame => set_x_not_frame i
  | MYNotSeries => set_y_not_series i
  | MYNaN => set_y_nan i
  | MIndexMismatch => set_index_mismatch true i
  | MMissingCol => set_missing_col i
  | MFeatureOverlap => set_overlap i
  | MQuantStr => set_quant_str i
  | MOrdinalUnknown => set_ordinal_unknown i
  | MNClasses => set_one_class i
  | MYStr => set_y_all_str i
  | MSortBy => set_bad_sort_by i
  | MNone | MSecondFit => i
  end.

(* one witness per unguarded triple: the injected input on which the (current) call does NOT
   end in AssertionError *)
Definition gap_result (c : cls) (e : entry) (m : mal) : result :=
  fst (run_call (csteps Current c e) (mkObj (fitted_at e) 0) (inject m (valid_input c false true))).

Definition gap_result_before (c : cls) (e : entry) (m : mal) : result * obj nat :=
  run_call (csteps Before c e) (mkObj (fitted_at e) 0) (inject m (valid_input c false false)).

(* crash points inside guarded triples (a variant of the malformation escapes the assertion):
   X is None — _prepare_data skips everything `if X is not None`, the first use of X raises *)
Definition set_ordinal_unknown_id_like (i : input) :=
  mkInput (x_is_frame i) (x_is_none i) (y_given i) (y_is_series i) (y_has_nan i) (index_matches i) (index_same_len i) (columns_present i) (dev_given i) (xdev_is_frame i) (ydev_is_series i) (ydev_has_nan i) (dev_index_matches i) (dev_columns_present i) (n_classes i) (y_is_01 i) (y_has_str i) (y_all_str i) (feature_overlap i) (quant_has_str i) true (sort_by_ok i) true
          (ydev_given i) (dev_index_same_len i) (ydev_classes_ok i) (ydev_has_str i) true.
Definition id_like_classes := [KDiscretizer; KQualitative; KBinary; KContinuousCarver; KMulticlass].

Definition set_ydev_missing (i : input) :=
  mkInput (x_is_frame i) (x_is_none i) (y_given i) (y_is_series i) (y_has_nan i) (index_matches i) (index_same_len i) (columns_present i) (dev_given i) (xdev_is_frame i) (ydev_is_series i) (ydev_has_nan i) (dev_index_matches i) (dev_columns_present i) (n_classes i) (y_is_01 i) (y_has_str i) (y_all_str i) (feature_overlap i) (quant_has_str i) (ordinal_unknown_value i) (sort_by_ok i) (has_ordinal i)
          false (dev_index_same_len i) (ydev_classes_ok i) (ydev_has_str i) (ordinal_id_like i).
Definition set_ydev_str (i : input) :=
  mkInput (x_is_frame i) (x_is_none i) (y_given i) (y_is_series i) (y_has_nan i) (index_matches i) (index_same_len i) (columns_present i) (dev_given i) (xdev_is_frame i) (ydev_is_series i) (ydev_has_nan i) (dev_index_matches i) (dev_columns_present i) (n_classes i) (y_is_01 i) (y_has_str i) (y_all_str i) (feature_overlap i) (quant_has_str i) (ordinal_unknown_value i) (sort_by_ok i) (has_ordinal i)
          (ydev_given i) (dev_index_same_len i) (ydev_classes_ok i) true (ordinal_id_like i).

(* X is None (every class) *)
Definition crash_gap_witnesses : list (cls * entry * mal * input) :=
  map (fun c => (c, EFit, MXNotFrame, set_x_none (valid_input c false true))) all_cls.
(* repaired by 9e3db28: X_dev given without y_dev (the three carvers), a str in the y_dev of a
   ContinuousCarver are now rejected with AssertionError *)
Definition dev_target_witnesses : list (cls * entry * mal * input) :=
  map (fun c => (c, EFit, MYNotSeries, set_ydev_missing (valid_input c true true)))
      [KBinary; KContinuousCarver; KMulticlass]
  ++ [(KContinuousCarver, EFit, MYStr, set_ydev_str (valid_input KContinuousCarver true true))].
(* before the fix commits: also y shorter than X, a continuous target mixing str and numbers *)
Definition crash_gap_witnesses_before : list (cls * entry * mal * input) :=
  flat_map (fun c =>
     if cls_eqb c KContinuous then [] else
       [(c, EFit, MXNotFrame, set_x_none (valid_input c false true));
        (c, EFit, MIndexMismatch, set_index_mismatch false (valid_input c false true))]) all_cls
  ++ [(KContinuousCarver, EFit, MYStr, set_y_mixed_str (valid_input KContinuousCarver false true))].
