(* Categorical.v — executable model of CategoricalDiscretizer.fit (as driven by
   QualitativeDiscretizer / Discretizer): feature dropped when its most frequent value is rarer
   than min_freq; rare (fl(count/n) < min_freq, str_nan excluded) and never-observed values are
   grouped into str_default; modalities ordered by target rate ascending, str_nan last.
   The GroupedList operations used by the code (append, group_list, sort_by) are modelled by their
   reference semantics (Proofs/GroupedListSpec.v, property C13).  No proofs here. *)
From Coq Require Import ZArith List Bool SpecFloat.
From AC.Model Require Import Base Float GroupedList Quantiles Ordinal.
Import ListNotations.
Open Scope Z_scope.

Definition str_default : val := VStr "__OTHER__".

Definition observed (d : odata) : list val := map (fun p => fst (fst p)) d.

(* freq < self.min_freq and val != self.str_nan   (over frequencies[feature].items()) *)
Definition rare_observed (n : Z) (m : fl) (d : odata) : list val :=
  map (fun p => fst (fst p)) (filter (fun p => fltb (fdivZ (snd (fst p)) n) m) d).

(* [value for value in order if value not in frequencies[feature]] *)
Definition never_observed (order : list val) (d : odata) (has_nan : bool) : list val :=
  filter (fun v => negb (mem v (observed d)) && negb (has_nan && val_eqb v str_nan)) order.

(* y.groupby(x).mean() of one modality: one rounded division of exact sums *)
Definition rate (c s : Z) : fl := fdivZ s c.

(* stable insertion sort by rate ascending (ties: the checker accepts any order) *)
Fixpoint insert_rate (a : val * fl) (l : list (val * fl)) : list (val * fl) :=
  match l with
  | [] => [a]
  | x :: t => if f_le_nanlast (snd a) (snd x) then a :: l else x :: insert_rate a t
  end.
Definition sort_rates (l : list (val * fl)) : list (val * fl) := fold_right insert_rate [] l.

Record cat_state := mkCat {
  cs_keys : list val;                 (* leaders in fitted order *)
  cs_content : dict;
  cs_rates : list (val * fl) }.       (* training target rate of each non-missing leader *)

(* None = feature dropped.  [order] = values_orders[feature] before fit (the user's list, or the
   unique non-missing values of the column), without str_nan *)
Definition categorical_fit (mf : Z * Z) (nan_cnt : Z) (order : list val) (d : odata)
  : res (option cat_state) :=
  let n := nan_cnt + count_rows d in
  let m := min_freq_f mf in
  let has_nan := 0 <? nan_cnt in
  if all_rare n m (map (fun p => snd (fst p)) d) then Ok None
  else if negb (forallb (fun v => mem v order) (observed d)) then AssertErr    (* _check_new_values *)
  else
    let rare_obs := rare_observed n m d in
    let to_group := rare_obs ++ never_observed order d has_nan in
    let grouping := existsb truthy to_group in                (* `if any(values_to_group)` *)
    let grouped v := grouping && mem v to_group in
    let kept := filter (fun p => negb (grouped (fst (fst p)))) d in
    let moved := filter (fun p => grouped (fst (fst p))) d in
    let kept_rates := map (fun p => (fst (fst p), rate (snd (fst p)) (snd p))) kept in
    let default_rate :=
      match moved with
      | [] => []
      | _ => [(str_default, rate (count_rows moved) (fold_right (fun p acc => snd p + acc) 0 moved))]
      end in
    (* default in order  <->  default in new_order *)
    (* sort_by: every remaining leader must have been observed *)
    if negb grouping && negb (match never_observed order d has_nan with [] => true | _ => false end)
    then AssertErr
    else if Bool.eqb grouping (match moved with [] => false | _ => true end) then
      let rates := sort_rates (kept_rates ++ default_rate) in
      let content :=
        map (fun kr => if val_eqb (fst kr) str_default
                       then (str_default, rev to_group ++ [str_default])
                       else (fst kr, [fst kr])) rates in
      Ok (Some (mkCat (map fst rates ++ (if has_nan then [str_nan] else []))
                      (content ++ (if has_nan then [(str_nan, [str_nan])] else []))
                      rates))
    else AssertErr.
