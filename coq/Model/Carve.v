(* Carve.v — the carving core of AutoCarver/carvers/base_carver.py (+ binary/continuous
   _grouper/_printer/_association_measure): candidates sorted by the measure, first viable wins,
   two stages (non-missing modalities, then placement of the missing-value modality).
   Units are numbered 0..k-1 in the feature's order; each carries the multiset of its target
   values on train and (optionally) dev.  No proofs here. *)
From Coq Require Import ZArith QArith List Bool SpecFloat.
Import ListNotations.
From AC.Model Require Import Float Combos Measures.
Open Scope Z_scope.

Inductive measure_kind := Tschuprowt | Cramerv | Kruskal.

Record cfg := mkCfg {
  max_n_mod : nat;
  min_freq_mod : fl;          (* exact binary64 value of the parameter *)
  dropna : bool;
  sort_by : measure_kind }.

Definition grouping := list (list nat).

Definition unit_of (units : list ymset) (i : nat) : ymset := nth i units [].
Definition group_ms (units : list ymset) (g : list nat) : ymset := ms_union (map (unit_of units) g).
Definition rows_of (units : list ymset) (c : grouping) : list ymset := map (group_ms units) c.

(* _printer: target rate and frequency per row, binary64 *)
Definition rate (u : ymset) : fl := fdivZ (ms_sum u) (ms_n u).
Definition freq (total : Z) (u : ymset) : fl := fdivZ (ms_n u) total.

Fixpoint no_close_adjacent (rs : list fl) : bool :=
  match rs with
  | a :: ((b :: _) as t) => negb (isclose b a) && no_close_adjacent t
  | _ => true
  end.

Definition rows_ok (mfm : fl) (rows : list ymset) : bool :=
  let total := fold_right (fun u acc => ms_n u + acc) 0 rows in
  forallb (fun u => fgeb (freq total u) mfm) rows
  && no_close_adjacent (map rate rows).

(* stable insertion sort of positions by rate, NaN last (pandas sort_values on <= 16 rows) *)
Fixpoint ins_rank (x : nat * fl) (l : list (nat * fl)) : list (nat * fl) :=
  match l with
  | [] => [x]
  | y :: t => if f_le_nanlast (snd y) (snd x) then y :: ins_rank x t else x :: l
  end.
Definition rank_order (rs : list fl) : list nat :=
  map fst (fold_left (fun acc x => ins_rank x acc) (combine (seq 0 (length rs)) rs) []).

Definition same_ranks (a b : list fl) : bool :=
  let ra := rank_order a in let rb := rank_order b in
  (length ra =? length rb)%nat && forallb (fun p => Nat.eqb (fst p) (snd p)) (combine ra rb).

(* _test_viability for one candidate *)
Definition viable (cf : cfg) (train : list ymset) (dev : option (list ymset)) (c : grouping) : bool :=
  let rt := rows_of train c in
  rows_ok (min_freq_mod cf) rt &&
  match dev with
  | None => true
  | Some d =>
      let rd := rows_of d c in
      same_ranks (map rate rt) (map rate rd) && rows_ok (min_freq_mod cf) rd
  end.

(* _association_measure, as a quantity monotone in the code's float *)
Definition measure (cf : cfg) (train : list ymset) (n_obs : Z) (c : grouping) : option Q :=
  let rows := rows_of train c in
  match sort_by cf with
  | Cramerv => cramerv2 (map row01 rows) n_obs
  | Tschuprowt => tschuprowt4 (map row01 rows) n_obs
  | Kruskal => kruskal rows
  end.

(* descending stable insertion sort on the measure, NaN last *)
Fixpoint ins_desc {A} (x : A * option Q) (l : list (A * option Q)) : list (A * option Q) :=
  match l with
  | [] => [x]
  | y :: t => if oq_le (snd x) (snd y) then y :: ins_desc x t else x :: l
  end.
Definition sort_desc {A} (l : list (A * option Q)) : list (A * option Q) :=
  fold_left (fun acc x => ins_desc x acc) l [].

(* _get_best_association: first viable candidate in decreasing measure *)
Definition stage (cf : cfg) (train : list ymset) (dev : option (list ymset)) (cands : list grouping)
  : option grouping :=
  let n_obs := fold_right (fun u acc => ms_n u + acc) 0 train in
  let scored := sort_desc (map (fun c => (c, measure cf train n_obs c)) cands) in
  match find (fun cm => viable cf train dev (fst cm)) scored with
  | Some cm => Some (fst cm)
  | None => None
  end.

(* stage 2 works on the groups of stage 1 as units, plus the missing-value unit (last) *)
Definition regroup (units : list ymset) (c : grouping) : list ymset := rows_of units c.
Definition expand (c1 : grouping) (nan_id : nat) (c2 : grouping) : grouping :=
  map (fun g => flat_map (fun i => if Nat.eqb i (length c1) then [nan_id] else nth i c1 []) g) c2.

Record feature_data := mkData {
  d_train : list ymset;              (* non-missing modalities, in order *)
  d_train_nan : option ymset;        (* missing-value modality, when present at fit *)
  d_dev : option (list ymset);       (* same modalities on X_dev (absent modality = empty) *)
  d_dev_nan : option ymset }.

Inductive outcome := Dropped | Kept (c : grouping).

(* _carve_feature / _get_best_combination *)
Definition carve (cf : cfg) (d : feature_data) : outcome :=
  let m := length (d_train d) in
  if (m <=? 1)%nat then Dropped
  else
    match stage cf (d_train d) (d_dev d) (consecutive_combinations (seq 0 m) (max_n_mod cf)) with
    | None => Dropped
    | Some c1 =>
        match d_train_nan d with
        | Some tn =>
            if dropna cf then
              let k := length c1 in
              let train2 := regroup (d_train d) c1 ++ [tn] in
              let dev2 := match d_dev d with
                          | Some dv => Some (regroup dv c1 ++ [match d_dev_nan d with Some x => x | None => [] end])
                          | None => None end in
              match stage cf train2 dev2 (nan_combinations (seq 0 k) k (max_n_mod cf)) with
              | Some c2 => Kept (expand c1 m c2)
              | None => Dropped
              end
            else Kept c1
        | None => Kept c1
        end
    end.
