(* CheckC03.v — C03 evaluated on the implementation's fitted state and probe outputs:
   every fitted group is a contiguous run of the feature's base order, and (float output) the
   transform of the probed numbers is non-decreasing.  No proofs here. *)
From Coq Require Import ZArith List Bool.
Import ListNotations.
Open Scope Z_scope.

(* groups as lists of positions in the feature's natural order (quantile boundaries sorted,
   user ranking, training target-rate order): contiguous iff their concatenation is 0..m-1 *)
Fixpoint nat_list_eqb (a b : list nat) : bool :=
  match a, b with
  | [], [] => true
  | x :: s, y :: t => Nat.eqb x y && nat_list_eqb s t
  | _, _ => false
  end.

Definition contiguous_b (m : nat) (groups : list (list nat)) : bool :=
  nat_list_eqb (concat groups) (seq 0 m) && forallb (fun g => negb (match g with [] => true | _ => false end)) groups.

(* probes: (exact scaled value, output rank) sorted by the harness in increasing value; the
   output must be non-decreasing.  inf probes carry the extreme Z the harness assigns. *)
Fixpoint monotone_b (ps : list (Z * Z)) : bool :=
  match ps with
  | (x, r) :: (((x', r') :: _) as t) => (x <=? x') && (r <=? r') && monotone_b t
  | _ => true
  end.

Record c03feature := mkC03f {
  h_m : nat;
  h_groups : list (list nat);
  h_probes : list (Z * Z) }.

Definition feature_ok (f : c03feature) : bool := contiguous_b (h_m f) (h_groups f) && monotone_b (h_probes f).

Definition verdict03 (fs : list c03feature) : nat := if forallb feature_ok fs then 0%nat else 2%nat.
