(* CheckC01.v — verdicts of the C01/C02 correspondence.  No proofs here. *)
From Coq Require Import ZArith QArith List Bool.
Import ListNotations.
From AC.Model Require Import Float Combos Measures Carve.
Open Scope Z_scope.

Fixpoint nat_list_eqb (a b : list nat) : bool :=
  match a, b with
  | [], [] => true
  | x :: s, y :: t => Nat.eqb x y && nat_list_eqb s t
  | _, _ => false
  end.
Fixpoint grouping_eqb (a b : grouping) : bool :=
  match a, b with
  | [], [] => true
  | x :: s, y :: t => nat_list_eqb x y && grouping_eqb s t
  | _, _ => false
  end.
Definition outcome_eqb (a b : outcome) : bool :=
  match a, b with
  | Dropped, Dropped => true
  | Kept x, Kept y => grouping_eqb x y
  | _, _ => false
  end.

Definition total_n (units : list ymset) : Z := fold_right (fun u acc => ms_n u + acc) 0 units.

(* the viable candidates whose measure is maximal among viable ones (up to 1e-9 relative) *)
Definition best_viable (cf : cfg) (train : list ymset) (dev : option (list ymset)) (cands : list grouping)
  : list grouping :=
  let n_obs := total_n train in
  let vs := filter (viable cf train dev) cands in
  let ms := map (fun c => (c, measure cf train n_obs c)) vs in
  map fst (filter (fun cm => forallb (fun cm' => oq_ge_tol (snd cm) (snd cm')) ms) ms).

Definition stage2_inputs (d : feature_data) (c1 : grouping) : list ymset * option (list ymset) :=
  match d_train_nan d with
  | Some tn =>
      (regroup (d_train d) c1 ++ [tn],
       match d_dev d with
       | Some dv => Some (regroup dv c1 ++ [match d_dev_nan d with Some x => x | None => [] end])
       | None => None
       end)
  | None => ([], None)
  end.

Definition stage2_best (cf : cfg) (d : feature_data) (c1 : grouping) : list grouping :=
  let m := length (d_train d) in
  let k := length c1 in
  let '(t2, d2) := stage2_inputs d c1 in
  map (expand c1 m) (best_viable cf t2 d2 (nan_combinations (seq 0 k) k (max_n_mod cf))).

Definition two_stage (cf : cfg) (d : feature_data) : bool :=
  dropna cf && match d_train_nan d with Some _ => true | None => false end.

(* C01 as a boolean on the implementation's outcome:
   kept  -> the grouping is a viable candidate of maximal measure (stage 1), and when missing values
            are grouped, a viable placement of maximal measure for SOME maximal stage-1 grouping;
   dropped -> fewer than two non-missing modalities, or a search without viable candidate. *)
Definition C01_b (cf : cfg) (d : feature_data) (o : outcome) : bool :=
  let m := length (d_train d) in
  let s1 := if (m <=? 1)%nat then []
            else best_viable cf (d_train d) (d_dev d) (consecutive_combinations (seq 0 m) (max_n_mod cf)) in
  match o with
  | Kept c =>
      if two_stage cf d then existsb (fun c1 => existsb (grouping_eqb c) (stage2_best cf d c1)) s1
      else existsb (grouping_eqb c) s1
  | Dropped =>
      match s1 with
      | [] => true
      | _ => two_stage cf d && existsb (fun c1 => match stage2_best cf d c1 with [] => true | _ => false end) s1
      end
  end.

(* is the optimum unique at both stages?  (otherwise any maximal choice is accepted) *)
Definition unique_optimum (cf : cfg) (d : feature_data) : bool :=
  let m := length (d_train d) in
  let s1 := if (m <=? 1)%nat then []
            else best_viable cf (d_train d) (d_dev d) (consecutive_combinations (seq 0 m) (max_n_mod cf)) in
  match s1 with
  | [] => true
  | [c1] => if two_stage cf d then (length (stage2_best cf d c1) <=? 1)%nat else true
  | _ => false
  end.

(* C02 bounds on the kept grouping, recomputed from the aggregates (the python side checks the
   same on transform outputs) *)
Definition C02_b (cf : cfg) (d : feature_data) (o : outcome) : bool :=
  match o with
  | Dropped => true
  | Kept c =>
      let m := length (d_train d) in
      let units := d_train d ++ match d_train_nan d with Some tn => [tn] | None => [] end in
      let dunits := match d_dev d with
                    | Some dv => Some (dv ++ [match d_dev_nan d with Some x => x | None => [] end])
                    | None => None end in
      (length c <=? max_n_mod cf)%nat && viable cf units dunits c
  end.

(* the harness sends one dev aggregate per train modality (absent modality = empty multiset) *)
Definition dev_aligned_b (d : feature_data) : bool :=
  match d_dev d with
  | Some dv => Nat.eqb (length dv) (length (d_train d))
  | None => true
  end.

(* Exact ties between the target rates of two groups (on train or on dev).  The code compares
   `train_rates.sort_values("target_rate").index` with the same on dev; pandas sorts with numpy's
   quicksort, which is NOT stable (AVX-512 sorting networks are used even for five rows), so the order of
   two exactly tied groups - and with it the verdict of the rank test - is implementation defined.  A
   candidate is rank-ambiguous when it passes every other test, has such a tie, and shows no STRICT
   inversion between train and dev.  When a rank-ambiguous candidate exists at a stage the model
   explores, a disagreement is reported as "agree up to an exact tie" (code 4). *)
Fixpoint has_tie (rs : list fl) : bool :=
  match rs with [] => false | x :: t => existsb (feqb x) t || has_tie t end.

Definition no_strict_inversion (a b : list fl) : bool :=
  let ab := combine a b in
  forallb (fun p => forallb (fun q => negb (fltb (fst p) (fst q) && fltb (snd q) (snd p))) ab) ab.

Definition rank_ambiguous (cf : cfg) (train : list ymset) (dev : option (list ymset)) (c : grouping) : bool :=
  match dev with
  | None => false
  | Some d =>
      let rt := rows_of train c in
      let rd := rows_of d c in
      rows_ok (min_freq_mod cf) rt && rows_ok (min_freq_mod cf) rd
      && (has_tie (map rate rt) || has_tie (map rate rd))
      && no_strict_inversion (map rate rt) (map rate rd)
  end.

Definition tie_dependent (cf : cfg) (d : feature_data) : bool :=
  let m := length (d_train d) in
  if (m <=? 1)%nat then false
  else
    let cands := consecutive_combinations (seq 0 m) (max_n_mod cf) in
    existsb (rank_ambiguous cf (d_train d) (d_dev d)) cands
    || (two_stage cf d
        && match stage cf (d_train d) (d_dev d) cands with
           | Some c1 =>
               let k := length c1 in
               let '(t2, d2) := stage2_inputs d c1 in
               existsb (rank_ambiguous cf t2 d2) (nan_combinations (seq 0 k) k (max_n_mod cf))
           | None => false
           end).

Record c01case := mkC01 { k_cfg : cfg; k_data : feature_data; k_impl : outcome }.

Definition verdict (c : c01case) : nat :=
  if negb (dev_aligned_b (k_data c)) then 3%nat
  else if negb (C01_b (k_cfg c) (k_data c) (k_impl c) && C02_b (k_cfg c) (k_data c) (k_impl c)) then
    (if tie_dependent (k_cfg c) (k_data c) then 4%nat else 2%nat)
  else if outcome_eqb (carve (k_cfg c) (k_data c)) (k_impl c) then 0%nat
  else if unique_optimum (k_cfg c) (k_data c) && negb (tie_dependent (k_cfg c) (k_data c)) then 1%nat else 4%nat.

(* used by the harness to report how many cases carry such a tie *)
Definition tie_flag (c : c01case) : nat := if tie_dependent (k_cfg c) (k_data c) then 1%nat else 0%nat.
