(* Labels.v — executable model of the label tables of
   AutoCarver/discretizers/utils/base_discretizers.py:
     format_quantiles, get_labels, BaseDiscretizer._get_labels_per_values.
   CPython's f"{x:.{n}e}" is NOT re-implemented: it arrives per case as finite tables; the
   functions below take the table format_quantiles ends up using, which the digit-selection rule
   (Model/FormatRule.v) picks among the tables for n = 3..17.  No proofs in this file. *)
From AC.Model Require Import Base GroupedList.

Inductive kind := Quant | Qual.            (* input_dtypes[feature] == "float" | "str" *)
Inductive odtype := OStr | OFloat.         (* output_dtype *)

(* an output label: a Python value (interval string, category leader, str_nan) or, with
   output_dtype='float', the rank produced by enumerate(labels) *)
Inductive label :=
| LVal (v : val)
| LRank (n : nat).

Definition label_eqb (a b : label) : bool :=
  match a, b with
  | LVal x, LVal y => val_eqb x y
  | LRank n, LRank m => Nat.eqb n m
  | _, _ => false
  end.

(* a per-case table  finite leader -> f"{leader:.{n}e}"  computed by CPython *)
Definition fmt_table := list (val * string).

Fixpoint fmt_lookup (t : fmt_table) (v : val) : string :=
  match t with
  | [] => "?"%string
  | (k, s) :: r => if val_eqb v k then s else fmt_lookup r v
  end.

(* numpy.isfinite on the numbers of the carrier *)
Definition is_finite (v : val) : bool := match v with VNum _ => true | _ => false end.

(* Python's  a != b *)
Definition py_neq (a b : val) : bool := negb (py_eq a b).

(* format_quantiles, on the already formatted boundaries:
     []            -> ["x <= nan"]
     [f0; ...; fk] -> ["x <= f0"; "f0 < x <= f1"; ...; "fk < x"] *)
Fixpoint fq_tail (prev : string) (rest : list string) : list string :=
  match rest with
  | [] => [(prev ++ " < x")%string]
  | f :: t => (prev ++ " < x <= " ++ f)%string :: fq_tail f t
  end.

Definition format_quantiles (fs : list string) : list string :=
  match fs with
  | [] => ["x <= nan"%string]
  | f0 :: rest => ("x <= " ++ f0)%string :: fq_tail f0 rest
  end.

(* get_labels(quantiles, str_nan): str_nan and non finite leaders are filtered out *)
Definition finite_leaders (str_nan : val) (ks : list val) : list val :=
  filter (fun v => py_neq v str_nan && is_finite v) ks.

Definition quant_labels (fmt : fmt_table) (str_nan : val) (ks : list val) : list string :=
  format_quantiles (map (fmt_lookup fmt) (finite_leaders str_nan ks)).

(* the list `labels` of _get_labels_per_values, before the zip with the leaders *)
Definition base_labels (k : kind) (fmt : fmt_table) (str_nan : val) (ks : list val) : list label :=
  match k with
  | Quant => map (fun s => LVal (VStr s)) (quant_labels fmt str_nan ks)
  | Qual => map LVal (filter (fun v => py_neq v str_nan) ks)
  end.

Definition get_labels (k : kind) (o : odtype) (fmt : fmt_table) (str_nan : val) (ks : list val)
  : list label :=
  let l1 := base_labels k fmt str_nan ks ++ (if mem str_nan ks then [LVal str_nan] else []) in
  match o with
  | OStr => l1
  | OFloat => map LRank (seq 0 (List.length l1))
  end.

(* insertion-ordered dict  value -> label *)
Definition ldict := list (val * label).

Fixpoint lget (k : val) (d : ldict) : option label :=
  match d with
  | [] => None
  | (k', l) :: t => if val_eqb k k' then Some l else lget k t
  end.

Fixpoint lset (k : val) (l : label) (d : ldict) : ldict :=
  match d with
  | [] => [(k, l)]
  | (k', l') :: t => if val_eqb k k' then (k', l) :: t else (k', l') :: lset k l t
  end.

(* for group_of_values, label in zip(values, labels):
       for value in values.get(group_of_values): label_per_value.update({value: label}) *)
Definition lpv_step (g : gl) (acc : ldict) (kl : val * label) : ldict :=
  fold_left (fun a v => lset v (snd kl) a) (get g (fst kl)) acc.

Definition lpv_of (g : gl) (labels : list label) : ldict :=
  fold_left (lpv_step g) (combine (keys g) labels) [].

Definition labels_per_values (k : kind) (o : odtype) (fmt : fmt_table) (str_nan : val) (g : gl)
  : ldict :=
  lpv_of g (get_labels k o fmt str_nan (keys g)).
