(* CheckC17.v — verdict function of the C17 correspondence.
   One case = the fitted state of ONE feature of a real object (values_orders list + content,
   flags, labels_per_values, transform of probe cells, transform of the JSON-reloaded object),
   a history of update_discretizer calls on that feature and the same observation after EACH call.
     agree  : Model/Update.v replayed on the history reproduces every observation
              (outcome class, order, features_dropna, labels_per_values, transform, JSON reload);
     C17_b  : the property evaluated on the implementation's OWN observations, for the edits the
              generator marked as valid (outcome, well-formedness, effect on the groups, label
              refresh, transform = lookup, JSON reload = transform, effect on the rows).
   No proofs here. *)
From AC.Model Require Import Base GroupedList CheckC13 Labels Transform FormatRule CheckC04 Update.

Record uobs := mkUObs {
  o_oc : outcome;               (* how the call ended (UDone for the initial observation) *)
  o_keys : list val;            (* list(values_orders[f]) *)
  o_content : dict;             (* values_orders[f].content, insertion order *)
  o_dropna : bool;              (* features_dropna[f] *)
  o_lpv : ldict;                (* labels_per_values[f] *)
  o_out : iout;                 (* transform(probe)[f] *)
  o_jout : iout }.              (* load_discretizer(json(to_json())).transform(probe)[f] *)

Record uedit := mkUEdit {
  ue_mode : umode; ue_d : val; ue_k : val;
  ue_valid : bool;              (* this edit and all the previous ones are valid edits *)
  ue_rows : bool }.             (* the row-level effect is prescribed (not for a quantitative
                                   'replace', which moves a boundary by design) *)

Record ucase := mkUCase {
  uc_kind : kind; uc_nan : val; uc_default : val; uc_odt : odtype;
  uc_fmts : list fmt_table;     (* finite number -> f"{x:.{n}e}" (CPython), n = 3, 4, ... for every
                                   number of the order and of the edits *)
  uc_unit : Z;
  uc_cells : list val;          (* probe cells (rows of the training frame) *)
  uc_obs0 : uobs;
  uc_edits : list uedit;
  uc_obs : list uobs }.

Definition obs_gl (o : uobs) : gl := mkGL (o_keys o) (o_content o).

Definition init_state (c : ucase) : state :=
  fitted_state_fix (uc_kind c) (obs_gl (uc_obs0 c)) (uc_nan c) (uc_default c)
                   (o_dropna (uc_obs0 c)) (uc_odt c) (uc_fmts c).

(* ---- domain of the model ------------------------------------------------------------------- *)
Definition numbers_of (l : list val) : list val := filter is_finite l.

Definition universe (c : ucase) : list val :=
  o_keys (uc_obs0 c) ++ dvalues (o_content (uc_obs0 c))
  ++ flat_map (fun e => [ue_d e; ue_k e]) (uc_edits c).

Definition domain_ok (c : ucase) : bool :=
  (0 <? uc_unit c) &&
  (Nat.eqb (List.length (uc_edits c)) (List.length (uc_obs c))) &&
  negb (is_nan (uc_nan c)) &&
  match uc_kind c with
  | Quant =>
      forallb (fun v => is_num v || is_nan v || val_eqb v (uc_nan c)) (universe c)
      && negb (match uc_fmts c with [] => true | _ => false end)
      && forallb (fun t => forallb (fmt_has t) (numbers_of (universe c))) (uc_fmts c)
      && forallb (fun x => is_num x || is_nan x) (uc_cells c)
  | Qual => true
  end.

(* ---- agree --------------------------------------------------------------------------------- *)
(* pandas glue outside Model/Transform.v: the NaN reinstatement `column.replace(label_of_nan, nan)`
   (dropna=False) acts on the WHOLE output column, hence also on a RAW value that leaked through
   numpy.select because an (invalid) edit removed the +inf sentinel: with output_dtype='float' a raw
   2.0 equal to the rank of the NaN group becomes missing *)
Definition leak_reinstate (unit : Z) (st : state) (o : out) : out :=
  match o with
  | ORaw (VNum z) =>
      if st_dropna st then o
      else match lget (st_nan st) (st_lpv st) with
           | Some (LRank n) => if Z.eqb z (Z.of_nat n * unit) then OMissing else o
           | _ => o
           end
  | _ => o
  end.

Definition model_col (c : ucase) (st : state) : res (list out) :=
  match transform_col st (uc_cells c) with
  | Ok os => Ok (map (leak_reinstate (uc_unit c) st) os)
  | e => e
  end.

Definition agree_obs (c : ucase) (st : state) (oc : outcome) (o : uobs) : bool :=
  outcome_eqb oc (o_oc o)
  && list_eqb val_eqb (keys (st_order st)) (o_keys o)
  && dict_eqb (content (st_order st)) (o_content o)
  && Bool.eqb (st_dropna st) (o_dropna o)
  && ldict_equiv (st_lpv st) (o_lpv o)
  && agree_col (uc_unit c) (model_col c st) (o_out o)
  && agree_col (uc_unit c) (model_col c (reload (uc_fmts c) st)) (o_jout o).

Fixpoint agree_run (c : ucase) (st : state) (es : list uedit) (os : list uobs) : bool :=
  match es, os with
  | [], [] => true
  | e :: et, o :: ot =>
      let r := update (uc_fmts c) st (ue_mode e) (ue_d e) (ue_k e) in
      agree_obs c (fst r) (snd r) o && agree_run c (fst r) et ot
  | _, _ => false
  end.

Definition agree (c : ucase) : bool :=
  agree_obs c (init_state c) UDone (uc_obs0 c)
  && agree_run c (init_state c) (uc_edits c) (uc_obs c).

(* ---- the property on the implementation's own observations ---------------------------------- *)
Definition set_eq (a b : list val) : bool := subset a b && subset b a && nodupb a && nodupb b.

Definition members (o : uobs) (k : val) : list val :=
  match dget k (o_content o) with Some v => v | None => [] end.

Definition same_groups_except (b a : uobs) (skip : list val) : bool :=
  forallb (fun x => mem x skip || set_eq (members a x) (members b x)) (o_keys a).

(* effect of one valid edit on the groups: before -> after *)
Definition effect_ok (nan : val) (b : uobs) (e : uedit) (a : uobs) : bool :=
  let d := if is_nan (ue_d e) then nan else ue_d e in
  let k := ue_k e in
  if py_eq (spec_group (o_content b) d) k then
    (* already grouped: warning, nothing changes *)
    outcome_eqb (o_oc a) UWarn && list_eqb val_eqb (o_keys a) (o_keys b)
    && same_groups_except b a []
  else
    outcome_eqb (o_oc a) UDone &&
    match ue_mode e with
    | MGroup =>
        let dgroup := if mem d (o_keys b) then members b d else [d] in
        (* a NEW kept name is appended as a new last group first *)
        let keys1 := if mem k (o_keys b) then o_keys b else o_keys b ++ [k] in
        let kgroup := if mem k (o_keys b) then members b k else [k] in
        list_eqb val_eqb (o_keys a) (filter (fun x => negb (val_eqb d x)) keys1)
        && set_eq (members a k) (dgroup ++ kgroup)
        && same_groups_except b a [k]
    | MReplace =>
        let newgroup := if mem k (members b d) then members b d else k :: members b d in
        list_eqb val_eqb (o_keys a) (replace_first d k (o_keys b))
        && set_eq (members a k) newgroup
        && same_groups_except b a [k]
    | MBad => false
    end.

(* a NaN edit always switches features_dropna on; no other edit touches it *)
Definition dropna_ok (b : uobs) (e : uedit) (a : uobs) : bool :=
  Bool.eqb (o_dropna a) (is_nan (ue_d e) || o_dropna b).

(* label refresh: the implementation's table is the table recomputed from ITS order *)
Definition labels_ok (c : ucase) (a : uobs) : bool :=
  let g := obs_gl a in
  ldict_equiv (labels_per_values (uc_kind c) (uc_odt c) (fmt_of (uc_fmts c) (uc_nan c) g) (uc_nan c)
                                (norm_gl (uc_nan c) g))
              (o_lpv a).

(* transform is the lookup described by the (new) order and labels: predicate of C04 *)
Definition as_tcase (c : ucase) (a : uobs) : tcase :=
  mkTCase true (uc_kind c) (o_keys a) (o_content a) (uc_nan c) (uc_default c) (o_dropna a)
          (uc_odt c) (uc_fmts c) (uc_unit c) (o_lpv a) [] (uc_cells c) (o_out a).

Definition iout_eqb (x y : iout) : bool :=
  match x, y with
  | IOk a, IOk b => list_eqb out_eqb a b
  | IAssert, IAssert => true
  | IInternal, IInternal => true
  | _, _ => false
  end.

(* leader whose label is l in observation o *)
Definition leader_of_label (o : uobs) (l : label) : option val :=
  match filter (fun k => match lget k (o_lpv o) with Some l' => label_eqb l l' | None => false end)
               (o_keys o) with
  | k :: _ => Some k
  | [] => None
  end.

(* rows: members of the discarded group get the kept group's label, every other row keeps its
   group (whose label may have been re-ranked) *)
Definition row_ok (nan : val) (b : uobs) (e : uedit) (a : uobs) (ob oa : out) : bool :=
  let d := if is_nan (ue_d e) then nan else ue_d e in
  let k := ue_k e in
  match ob with
  | OLab lb =>
      match leader_of_label b lb with
      | None => false
      | Some leader =>
          let leader' := if val_eqb leader d then k else leader in
          match lget leader' (o_lpv a), oa with
          | Some la, OLab l => label_eqb la l
          | _, _ => false
          end
      end
  | OMissing =>
      if is_nan (ue_d e)
      then match lget k (o_lpv a), oa with
           | Some la, OLab l => label_eqb la l
           | _, _ => false
           end
      else match oa with OMissing => true | _ => false end
  | ORaw _ => false
  end.

Definition rows_ok (nan : val) (b : uobs) (e : uedit) (a : uobs) : bool :=
  match o_out b, o_out a with
  | IOk bs, IOk xs => forallb2 (row_ok nan b e a) bs xs
  | _, _ => false
  end.

Definition edit_ok (c : ucase) (b : uobs) (e : uedit) (a : uobs) : bool :=
  wf_b (obs_gl a)
  && effect_ok (uc_nan c) b e a
  && dropna_ok b e a
  && labels_ok c a
  && lookup_ok (as_tcase c a)
  && iout_eqb (o_out a) (o_jout a)
  && (negb (ue_rows e) || rows_ok (uc_nan c) b e a).

Fixpoint history_ok (c : ucase) (b : uobs) (es : list uedit) (os : list uobs) : bool :=
  match es, os with
  | e :: et, a :: ot =>
      if ue_valid e then edit_ok c b e a && history_ok c a et ot else true
  | _, _ => true
  end.

Definition C17_b (c : ucase) : bool :=
  (* the fitted object itself is coherent (C04 on the initial state), then every valid edit *)
  labels_ok c (uc_obs0 c) && lookup_ok (as_tcase c (uc_obs0 c))
  && iout_eqb (o_out (uc_obs0 c)) (o_jout (uc_obs0 c))
  && history_ok c (uc_obs0 c) (uc_edits c) (uc_obs c).

(* 0 agree & holds | 1 model and implementation disagree | 2 property predicate fails
   | 3 outside the model's domain *)
Definition verdict (c : ucase) : nat :=
  if negb (domain_ok c) then 3%nat
  else if negb (C17_b c) then 2%nat
  else if agree c then 0%nat else 1%nat.
