(* Pipeline.v — how per-feature results are assembled and how the per-feature carving loop walks
   a shared state (AutoCarver: `values_orders.update({feature: order for ...})` after a pool, and
   `for feature in all_features: labels_orders = self._carve_feature(feature, ...)` with removal
   during iteration).  Feature names are strings, per-feature entries are abstract.  No proofs. *)
From Coq Require Import List String Bool.
Import ListNotations.

Section Pipeline.
Context {E : Type}.

Definition smap := list (string * E).

Fixpoint slookup (f : string) (m : smap) : option E :=
  match m with
  | [] => None
  | (k, e) :: t => if String.eqb f k then Some e else slookup f t
  end.

(* dict[f] = e : in place when present, appended otherwise *)
Fixpoint sset (f : string) (e : E) (m : smap) : smap :=
  match m with
  | [] => [(f, e)]
  | (k, e') :: t => if String.eqb f k then (k, e) :: t else (k, e') :: sset f e t
  end.

(* dict.pop(f) (absent: unchanged) *)
Fixpoint sremove (f : string) (m : smap) : smap :=
  match m with
  | [] => []
  | (k, e) :: t => if String.eqb f k then t else (k, e) :: sremove f t
  end.

(* results of a pool come back as (feature, result) pairs in ANY completion order and are
   written into the shared dict *)
Definition assemble (init : smap) (results : list (string * E)) : smap :=
  fold_left (fun acc fr => sset (fst fr) (snd fr) acc) results init.

(* the carving loop: each feature's step reads its own entry and either rewrites it or removes
   the feature *)
Definition carve_step (step : string -> E -> option E) (st : smap) (f : string) : smap :=
  match slookup f st with
  | Some e => match step f e with Some e' => sset f e' st | None => sremove f st end
  | None => st
  end.

Definition carve_loop (step : string -> E -> option E) (fs : list string) (st : smap) : smap :=
  fold_left (carve_step step) fs st.

End Pipeline.
