(* Quantiles.v — executable model of AutoCarver/discretizers/utils/quantitative_discretizers.py:
   np_find_quantiles / find_quantiles / fit_feature and of ContinuousDiscretizer.__init__'s
   q = round(1 / min_freq).  Floats are bit-exact binary64 (Model/Float.v).  No proofs here.

   A column is given by its aggregate  numpy.unique(col[~isnan(col)], return_counts=True) :
   a list of (value, count) with value an exact scaled integer; len_df counts the NaN rows too. *)
From Coq Require Import ZArith List Bool SpecFloat.
From AC.Model Require Import Base Float GroupedList.
Import ListNotations.
Open Scope Z_scope.

Inductive qerr := QFuel | QIndex | QFloat.
Inductive qres (A : Type) := QOk (a : A) | QErr (e : qerr).
Arguments QOk {A} a.
Arguments QErr {A} e.

Definition vcs := list (Z * Z).

(* len(df_feature) of a sub-sample *)
Definition total (vc : vcs) : Z := fold_right (fun p acc => snd p + acc) 0 vc.

(* len_df / q  (python float) *)
Definition thr (len_df q : Z) : fl := fdivZ len_df q.

(* frequencies >= len_df / q : the integer count is compared as a float *)
Definition is_freq (t : fl) (c : Z) : bool := fleb t (f_of_Z c).

Definition freq_entries (t : fl) (vc : vcs) : vcs := filter (fun p => is_freq t (snd p)) vc.
Definition freq_values (t : fl) (vc : vcs) : list Z := map fst (freq_entries t vc).

Fixpoint memZ (x : Z) (l : list Z) : bool :=
  match l with [] => false | y :: t => Z.eqb x y || memZ x t end.

(* numpy.digitize(x, bins, right=False) == i  <->  bins[i-1] <= x < bins[i] *)
Definition in_seg (lo hi : option Z) (x : Z) : bool :=
  (match lo with None => true | Some l => l <=? x end)
  && (match hi with None => true | Some h => x <? h end).

Fixpoint bounds (prev : option Z) (fv : list Z) : list (option Z * option Z) :=
  match fv with
  | [] => [(prev, None)]
  | v :: t => (prev, Some v) :: bounds (Some v) t
  end.

(* df_feature[(sub_indices == i) & (~in1d(df_feature, frequent_values))]  for i in 0..len(fv) *)
Definition segments (t : fl) (vc : vcs) : list vcs :=
  let fv := freq_values t vc in
  map (fun b => filter (fun p => in_seg (fst b) (snd b) (fst p) && negb (memZ (fst p) fv)) vc)
      (bounds None fv).

(* i-th element (0-based) of the sorted sub-sample *)
Fixpoint nth_sorted (vc : vcs) (i : Z) : option Z :=
  match vc with
  | [] => None
  | (v, c) :: t => if i <? c then Some v else nth_sorted t (i - c)
  end.

Fixpoint max_value (vc : vcs) : option Z :=
  match vc with
  | [] => None
  | (v, _) :: t => match max_value t with None => Some v | Some w => Some (Z.max v w) end
  end.

Fixpoint mapM {A B : Type} (f : A -> qres B) (l : list A) : qres (list B) :=
  match l with
  | [] => QOk []
  | x :: t =>
      match f x with
      | QErr e => QErr e
      | QOk y => match mapM f t with QErr e => QErr e | QOk ys => QOk (y :: ys) end
      end
  end.

(* 1, 2, ..., k *)
Definition range1 (k : Z) : list Z := map Z.of_nat (seq 1 (Z.to_nat k)).

(* numpy.quantile(a, linspace(0, 1, new_q + 1)[i], method="lower") picks the sorted element of index
   floor((n - 1) * linspace[i]),  linspace[i] = i * (1.0 / new_q)  (all binary64) *)
Definition q_position (n new_q i : Z) : option Z :=
  f_floor (fmul (f_of_Z (n - 1)) (fmul (f_of_Z i) (fdivZ 1 new_q))).

Definition pick (vc : vcs) (n new_q i : Z) : qres Z :=
  match q_position n new_q i with
  | None => QErr QFloat
  | Some j =>
      if j <? 0 then QErr QIndex
      else match nth_sorted vc j with Some v => QOk v | None => QErr QIndex end
  end.

(* new_q = round(len(df_feature) / len_df * q)   (python round: half to even) *)
Definition new_q_of (q len_df n : Z) : option Z :=
  f_round_half_even (fmul (fdivZ n len_df) (f_of_Z q)).

(* case 3.2: no over-represented value *)
Definition leaf (q len_df : Z) (vc : vcs) : qres (list Z) :=
  let n := total vc in
  match new_q_of q len_df n with
  | None => QErr QFloat
  | Some nq =>
      if 1 <? nq then mapM (pick vc n nq) (range1 (nq - 1))
      else match max_value vc with Some v => QOk [v] | None => QErr QIndex end
  end.

Fixpoint fq (fuel : nat) (q len_df : Z) (vc : vcs) : qres (list Z) :=
  match fuel with
  | O => QErr QFuel
  | S f =>
      match vc with
      | [] => QOk []
      | _ :: _ =>
          let t := thr len_df q in
          if existsb (fun p => is_freq t (snd p)) vc then
            match mapM (fq f q len_df) (segments t vc) with
            | QOk rs => QOk (List.concat rs ++ freq_values t vc)%list
            | QErr e => QErr e
            end
          else leaf q len_df vc
      end
  end.

(* numpy.sort / numpy.unique of the collected quantiles *)
Fixpoint insertZ (a : Z) (l : list Z) : list Z :=
  match l with
  | [] => [a]
  | x :: t => if a <=? x then a :: l else x :: insertZ a t
  end.
Definition sortZ (l : list Z) : list Z := fold_right insertZ [] l.

Fixpoint dedup_sorted (l : list Z) : list Z :=
  match l with
  | [] => []
  | x :: t => match t with
              | [] => [x]
              | y :: _ => if Z.eqb x y then dedup_sorted t else x :: dedup_sorted t
              end
  end.

Definition np_fuel : nat := 3%nat.

(* the code as it is: list(sort(np_find_quantiles(...)))  — duplicates possible *)
Definition find_quantiles (q len_df : Z) (vc : vcs) : qres (list Z) :=
  match fq np_fuel q len_df vc with QOk l => QOk (sortZ l) | QErr e => QErr e end.

(* pending repair: list(unique(np_find_quantiles(...))) *)
Definition find_quantiles_dedup (q len_df : Z) (vc : vcs) : qres (list Z) :=
  match fq np_fuel q len_df vc with QOk l => QOk (dedup_sorted (sortZ l)) | QErr e => QErr e end.

Definition find_quantiles_v (dedup : bool) := if dedup then find_quantiles_dedup else find_quantiles.

(* q = round(1 / min_freq), min_freq an exact dyadic *)
Definition q_of_min_freq (mf : Z * Z) : option Z :=
  f_round_half_even (fdiv (f_of_Z 1) (f_of_dyadic (fst mf) (snd mf))).

Definition str_nan : val := VStr "__NAN__".

(* fit_feature: GroupedList(quantiles + [inf]) (+ str_nan when the column has missing values) *)
Definition boundaries (qs : list Z) : list val := map VNum qs ++ [VPInf].

Definition fit_feature (dedup : bool) (q len_df nan_cnt : Z) (vc : vcs) : qres gl :=
  match find_quantiles_v dedup q len_df vc with
  | QErr e => QErr e
  | QOk qs =>
      let g := of_list (boundaries qs) in
      QOk (if 0 <? nan_cnt then append g str_nan else g)
  end.
