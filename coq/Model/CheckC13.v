(* CheckC13.v — verdict function of the C13 correspondence: model run vs implementation trace,
   and the property predicate C13_b on the implementation's own states.  No proofs here. *)
From AC.Model Require Import Base GroupedList.

Fixpoint list_eqb {A} (eqb : A -> A -> bool) (a b : list A) : bool :=
  match a, b with
  | [], [] => true
  | x :: s, y :: t => eqb x y && list_eqb eqb s t
  | _, _ => false
  end.

Definition dict_eqb (a b : dict) : bool :=
  list_eqb (fun x y => val_eqb (fst x) (fst y) && list_eqb val_eqb (snd x) (snd y)) a b.

(* what the harness observes after each operation *)
Record look := mkLook { l_get : list val; l_group : val; l_contains : bool }.
Record obs := mkObs { o_keys : list val; o_content : dict; o_values : list val; o_look : list look }.
Inductive sobs := SOk (o : obs) | SAssert | SInternal.

Inductive init := IList (l : list val) | IDict (d : dict).

Record c13case := mkCase {
  c_valid : bool;              (* generated as a valid history (true) or malformed stream *)
  c_init : init;
  c_ops : list op;
  c_univ : list val;
  c_obs0 : sobs;
  c_obs : list sobs }.

Definition model_init (i : init) : res gl :=
  match i with IList l => Ok (of_list l) | IDict d => of_dict d end.

Definition look_eqb (a b : look) : bool :=
  list_eqb val_eqb (l_get a) (l_get b) && val_eqb (l_group a) (l_group b)
  && Bool.eqb (l_contains a) (l_contains b).

Definition model_look (g : gl) (u : val) : look := mkLook (get g u) (get_group g u) (contains g u).

(* does the implementation's observation equal the model's state? *)
Definition agree_state (univ : list val) (g : gl) (o : obs) : bool :=
  list_eqb val_eqb (keys g) (o_keys o) && dict_eqb (content g) (o_content o)
  && list_eqb val_eqb (values g) (o_values o)
  && list_eqb look_eqb (map (model_look g) univ) (o_look o).

Definition agree_res (univ : list val) (r : res gl) (o : sobs) : bool :=
  match r, o with
  | Ok g, SOk ob => agree_state univ g ob
  | AssertErr, SAssert => true
  | InternalErr, SInternal => true
  | _, _ => false
  end.

Fixpoint agree_run (univ : list val) (g : gl) (ops : list op) (os : list sobs) : bool :=
  match ops, os with
  | [], [] => true
  | o :: t, ob :: obt =>
      let r := step g o in
      agree_res univ r ob &&
      match r with
      | Ok g' => agree_run univ g' t obt
      | _ => match obt with [] => true | _ => false end
      end
  | _, _ => false
  end.

Definition agree (c : c13case) : bool :=
  let r := model_init (c_init c) in
  agree_res (c_univ c) r (c_obs0 c) &&
  match r with
  | Ok g => agree_run (c_univ c) g (c_ops c) (c_obs c)
  | _ => match c_obs c with [] => true | _ => false end
  end.

(* ---- the property as a boolean on the implementation's own state ------------------------ *)
Definition subset (a b : list val) : bool := forallb (fun x => mem x b) a.

Definition wf_b (g : gl) : bool :=
  nodupb (keys g) && nodupb (dkeys (content g))
  && subset (keys g) (dkeys (content g)) && subset (dkeys (content g)) (keys g)
  && nodupb (dvalues (content g))
  && forallb (fun kv => mem (fst kv) (snd kv)) (content g).

(* lookups agree with content: computed from the observed content by their one-line specs *)
Definition spec_group (c : dict) (u : val) : val :=
  match filter (fun kv => mem u (snd kv)) c with kv :: _ => fst kv | [] => u end.

Definition looks_ok (univ : list val) (o : obs) : bool :=
  list_eqb val_eqb (o_values o) (dvalues (o_content o)) &&
  list_eqb look_eqb
    (map (fun u => mkLook (match dget u (o_content o) with Some v => v | None => [] end)
                          (spec_group (o_content o) u)
                          (mem u (dvalues (o_content o)))) univ)
    (o_look o).

Definition obs_ok (univ : list val) (o : sobs) : bool :=
  match o with
  | SOk ob => wf_b (mkGL (o_keys ob) (o_content ob)) && looks_ok univ ob
  | _ => true
  end.

Definition C13_b (c : c13case) : bool :=
  negb (c_valid c) || (obs_ok (c_univ c) (c_obs0 c) && forallb (obs_ok (c_univ c)) (c_obs c)).

(* 0 agree & holds | 1 model and implementation disagree | 2 property predicate fails *)
Definition verdict (c : c13case) : nat :=
  if negb (C13_b c) then 2%nat else if agree c then 0%nat else 1%nat.
