(* CheckC04.v — verdict function of the C04 correspondence (shared case type with C05):
   the fitted state of one feature extracted from the implementation, the cells that were
   transformed, the implementation's labels_per_values and output cells.
     agree  : the model's label table and transform_col equal the implementation's;
     C04_b  : the property, evaluated on the implementation's OWN data (content, labels, outputs).
   No proofs here. *)
From AC.Model Require Import Base GroupedList CheckC13 Labels Transform FormatRule.

Inductive iout := IOk (o : list out) | IAssert | IInternal.

Record tcase := mkTCase {
  t_fitted : bool;              (* state produced by the library's fit/load (true) or hand-made *)
  t_kind : kind;
  t_keys : list val;
  t_content : dict;
  t_nan : val;
  t_default : val;
  t_dropna : bool;
  t_odt : odtype;
  t_fmts : list fmt_table;      (* finite leader -> f"{leader:.{n}e}" (CPython), n = 3, 4, ... *)
  t_unit : Z;                   (* VNum z stands for z / t_unit *)
  t_lpv : ldict;                (* the implementation's labels_per_values[feature] *)
  t_strform : list (val * val); (* numeric member -> VStr (string form used by StringDiscretizer) *)
  t_cells : list val;           (* transformed cells *)
  t_out : iout }.               (* the implementation's output cells / exception class *)

Definition t_gl (c : tcase) : gl := mkGL (t_keys c) (t_content c).

(* the table selected by the digit rule of format_quantiles *)
Definition t_fmt (c : tcase) : fmt_table := fmt_of (t_fmts c) (t_nan c) (t_gl c).

Definition t_state (c : tcase) : state :=
  fitted_state_auto (t_kind c) (t_gl c) (t_nan c) (t_default c) (t_dropna c) (t_odt c) (t_fmts c).

(* ---- domain of the model ---------------------------------------------------------------- *)
Fixpoint fmt_has (t : fmt_table) (v : val) : bool :=
  match t with [] => false | (k, _) :: r => val_eqb v k || fmt_has r v end.

Definition domain_ok (c : tcase) : bool :=
  (0 <? t_unit c) &&
  match t_kind c with
  | Quant =>
      forallb (fun k => is_num k || val_eqb k (t_nan c)) (t_keys c)
      && negb (match t_fmts c with [] => true | _ => false end)
      && forallb (fun t => forallb (fmt_has t) (finite_leaders (t_nan c) (t_keys c))) (t_fmts c)
      && forallb (fun x => is_num x || is_nan x) (t_cells c)
  | Qual => true
  end.

(* ---- agree ------------------------------------------------------------------------------ *)
Definition ldict_sub (a b : ldict) : bool :=
  forallb (fun kl => match lget (fst kl) b with Some l => label_eqb l (snd kl) | None => false end) a.

Definition ldict_equiv (a b : ldict) : bool := ldict_sub a b && ldict_sub b a.

(* model cell vs implementation cell.  A raw value that leaks is compared loosely: numpy coerces
   the default of select() to the dtype of the labels (a string for output_dtype='str') *)
Definition agree_out (unit : Z) (m i : out) : bool :=
  match m, i with
  | OLab a, OLab b => label_eqb a b
  | OMissing, OMissing => true
  | ORaw _, ORaw _ => true
  | ORaw (VNum z), OLab (LRank n) => Z.eqb z (Z.of_nat n * unit)
  | ORaw _, OLab (LVal (VStr _)) => true
  | ORaw v, OLab (LVal w) => val_eqb v w
  | _, _ => false
  end.

Definition agree_col (unit : Z) (m : res (list out)) (i : iout) : bool :=
  match m, i with
  | Ok ms, IOk os => list_eqb (agree_out unit) ms os
  | AssertErr, IAssert => true
  | InternalErr, IInternal => true
  | _, _ => false
  end.

Definition agree (c : tcase) : bool :=
  ldict_equiv (st_lpv (t_state c)) (t_lpv c)
  && agree_col (t_unit c) (transform_col (t_state c) (t_cells c)) (t_out c).

(* ---- the property on the implementation's own data ---------------------------------------- *)
Definition out_eqb (a b : out) : bool :=
  match a, b with
  | OLab x, OLab y => label_eqb x y
  | OMissing, OMissing => true
  | ORaw x, ORaw y => val_eqb x y
  | _, _ => false
  end.

(* label of the group led by k, read in the implementation's table *)
Definition impl_label (c : tcase) (k : val) : option label := lget k (t_lpv c).

Fixpoint first_geq (x : val) (leaders : list val) : option val :=
  match leaders with
  | [] => None
  | l :: t => if num_le x l then Some l else first_geq x t
  end.

(* what the property prescribes for one cell; None = nothing prescribed *)
Definition expected_cell (c : tcase) (x : val) : option (option out) :=
  let g := t_gl c in
  if is_nan x then
    if contains g (t_nan c)
    then Some (if t_dropna c
               then option_map OLab (impl_label c (get_group g (t_nan c)))
               else Some OMissing)
    else None
  else
    match t_kind c with
    | Qual => if contains g x then Some (option_map OLab (impl_label c (get_group g x))) else None
    | Quant =>
        Some (match first_geq x (filter (fun v => py_neq v (t_nan c)) (t_keys c)) with
              | Some l => option_map OLab (impl_label c l)
              | None => None
              end)
    end.

Definition cell_ok (c : tcase) (x : val) (o : out) : bool :=
  match expected_cell c x with
  | None => true
  | Some None => false
  | Some (Some e) => out_eqb e o
  end.

Fixpoint forallb2 {A B} (f : A -> B -> bool) (a : list A) (b : list B) : bool :=
  match a, b with
  | [], [] => true
  | x :: s, y :: t => f x y && forallb2 f s t
  | _, _ => false
  end.

(* pairwise distinct labels of the leaders, every leader labelled *)
Fixpoint labels_distinct (ls : list (option label)) : bool :=
  match ls with
  | [] => true
  | None :: _ => false
  | Some l :: t =>
      negb (existsb (fun o => match o with Some l' => label_eqb l l' | None => false end) t)
      && labels_distinct t
  end.

Fixpoint ranks_from (n : nat) (ls : list (option label)) : bool :=
  match ls with
  | [] => true
  | Some (LRank m) :: t => Nat.eqb n m && ranks_from (S n) t
  | _ => false
  end.

Definition leader_labels (c : tcase) : list (option label) := map (impl_label c) (t_keys c).

Definition strform_ok (c : tcase) : bool :=
  forallb (fun vs => negb (contains (t_gl c) (snd vs))
                     || val_eqb (get_group (t_gl c) (fst vs)) (get_group (t_gl c) (snd vs)))
          (t_strform c).

Definition lookup_ok (c : tcase) : bool :=
  match t_out c with
  | IOk os => forallb2 (cell_ok c) (t_cells c) os
  | _ => false                 (* data seen at fit must be transformed *)
  end.

Definition distinct_ok (c : tcase) : bool := labels_distinct (leader_labels c).

Definition ranks_ok (c : tcase) : bool :=
  match t_odt c with OFloat => ranks_from 0 (leader_labels c) | OStr => true end.

Definition C04_b (c : tcase) : bool :=
  negb (t_fitted c) || (lookup_ok c && distinct_ok c && ranks_ok c && strform_ok c).

(* 0 agree & holds | 1 model and implementation disagree | 2 property predicate fails
   | 3 outside the model's domain *)
Definition verdict04 (c : tcase) : nat :=
  if negb (domain_ok c) then 3%nat
  else if negb (C04_b c) then 2%nat
  else if agree c then 0%nat else 1%nat.

(* one implementation run yields one tcase per fitted feature: worst code of the run *)
Definition verdicts (f : tcase -> nat) (l : list tcase) : nat :=
  let vs := map f l in
  if existsb (Nat.eqb 2) vs then 2%nat
  else if existsb (Nat.eqb 1) vs then 1%nat
  else if existsb (Nat.eqb 3) vs then 3%nat
  else 0%nat.
