(* Combos.v — consecutive_combinations / combinations_at_index / nan_combinations of
   AutoCarver/carvers/base_carver.py, as functions on lists.  No proofs here. *)
From Coq Require Import List Arith Bool.
Import ListNotations.

Section Combos.
Context {A : Type}.

(* combinations_at_index(start, order, nb_remaining): the possible next groups.  [rest] is
   order[start:]; yields (group, rest', nb-1) for size = 1..len(rest) when nb > 1 or rest' = [] *)
Fixpoint splits_from (pre : list A) (rest : list A) : list (list A * list A) :=
  match rest with
  | [] => []
  | x :: t => (pre ++ [x], t) :: splits_from (pre ++ [x]) t
  end.

Definition is_nil {B} (l : list B) : bool := match l with [] => true | _ => false end.

Definition next_groups (rest : list A) (nb : nat) : list (list A * list A) :=
  filter (fun gr => (1 <? nb) || is_nil (snd gr)) (splits_from [] rest).

(* consecutive_combinations(raw_order, max_group_size, min_group_size=1): the accumulator
   recursion; [cur] is current_combination, emitted when no next group exists and
   1 < len(cur) <= max_group_size.  Enumeration order = the code's. *)
Fixpoint cc (fuel : nat) (rest : list A) (nb maxg : nat) (cur : list (list A))
  : list (list (list A)) :=
  match fuel with
  | O => []
  | S f =>
      let nexts := next_groups rest nb in
      (if is_nil nexts && (1 <? length cur) && (length cur <=? maxg) then [cur] else [])
      ++ flat_map (fun gr => cc f (snd gr) (nb - 1) maxg (cur ++ [fst gr])) nexts
  end.

Definition consecutive_combinations (order : list A) (maxg : nat) : list (list (list A)) :=
  cc (S (length order)) order maxg maxg [].

(* nan_combinations(raw_order, str_nan, max_n_mod) *)
Fixpoint add_to_nth (n : nat) (x : A) (c : list (list A)) : list (list A) :=
  match c, n with
  | [], _ => []
  | g :: t, O => (g ++ [x]) :: t
  | g :: t, S m => g :: add_to_nth m x t
  end.

Definition nan_variants (nan : A) (maxg : nat) (c : list (list A)) : list (list (list A)) :=
  map (fun n => add_to_nth n nan c) (seq 0 (length c))
  ++ (if length c <? maxg then [c ++ [[nan]]] else []).

Definition nan_combinations (order : list A) (nan : A) (maxg : nat) : list (list (list A)) :=
  flat_map (nan_variants nan maxg) (consecutive_combinations order maxg).

End Combos.
