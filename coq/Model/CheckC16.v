(* CheckC16.v — verdict functions of the C16 correspondence.
   Two kinds of cases:
     CS  one fitted object (any discretizer / carver): per kept feature the fitted state (as in
         CheckC04: values_orders, labels_per_values, transformed training cells) and the
         implementation's summary(), summary(f) for every kept f, summary(u) for dropped/unknown u;
     CH  one carver fit on one feature (as in CheckC01: configuration + target multisets per base
         modality) and the implementation's history records, combinations mapped back to base
         modality numbers (missing values = number m), association values as exact dyadics.
   agree  : the model (Model/Summary.v) and the implementation produce the same rows / records
            (rows as sets, contents as sets, records positionally; when the positional comparison
            fails but the implementation's sequence is a valid run of the search up to the order of
            tied measures the code is 4);
   C16_b  : the property evaluated on the implementation's OWN output.
   No proofs here. *)
From AC.Model Require Import Base GroupedList Labels Transform FormatRule CheckC04.
From Coq Require Import QArith.
From AC.Model Require Import Float Combos Measures Carve CheckC01 Summary.
Open Scope Z_scope.

(* =========================================================================================== *)
(* summary                                                                                     *)
(* =========================================================================================== *)
Inductive isum := SumOk (rows : list (string * srow)) | SumAssert | SumInternal.

Record ocase := mkOCase {
  o_feats : list (string * tcase);       (* kept features: state, training cells, transform output *)
  o_all : isum;                          (* summary() *)
  o_each : list (string * isum);         (* summary(f), f kept *)
  o_unknown : list (string * isum) }.    (* summary(u), u dropped at fit or never declared *)

Definition o_model (c : ocase) : list ofeat :=
  map (fun nt => mkOF (fst nt) (t_fmt (snd nt)) (t_state (snd nt))) (o_feats c).

(* ---- sets ---------------------------------------------------------------------------------- *)
Definition vset_sub (a b : list val) : bool := forallb (fun x => mem x b) a.
Definition vset_eqb (a b : list val) : bool := vset_sub a b && vset_sub b a.

Definition row_eqb (a b : srow) : bool :=
  label_eqb (r_label a) (r_label b) && vset_eqb (r_content a) (r_content b).

Definition frow_eqb (a b : string * srow) : bool :=
  String.eqb (fst a) (fst b) && row_eqb (snd a) (snd b).

Definition frows_sub (a b : list (string * srow)) : bool :=
  forallb (fun x => existsb (frow_eqb x) b) a.

Definition frows_eqb (a b : list (string * srow)) : bool :=
  Nat.eqb (List.length a) (List.length b) && frows_sub a b && frows_sub b a.

Definition isum_agree (m : res (list (string * srow))) (i : isum) : bool :=
  match m, i with
  | Ok a, SumOk b => frows_eqb a b
  | AssertErr, SumAssert => true
  | InternalErr, SumInternal => true
  | _, _ => false
  end.

Definition agree_summary (c : ocase) : bool :=
  let o := o_model c in
  isum_agree (summary_obj o None) (o_all c)
  && forallb (fun fs => isum_agree (summary_obj o (Some (fst fs))) (snd fs)) (o_each c)
  && forallb (fun fs => isum_agree (summary_obj o (Some (fst fs))) (snd fs)) (o_unknown c).

(* ---- the property on the implementation's rows --------------------------------------------- *)
Definition rows_named (f : string) (rows : list (string * srow)) : list srow :=
  map snd (filter (fun r => String.eqb (fst r) f) rows).

Fixpoint labels_nodup (ls : list label) : bool :=
  match ls with
  | [] => true
  | l :: t => negb (existsb (label_eqb l) t) && labels_nodup t
  end.

(* rows whose content shows v *)
Definition rows_with (v : val) (rows : list srow) : list srow :=
  filter (fun r => mem v (r_content r)) rows.

(* v is shown in exactly one row and that row carries the label l *)
Definition shown_once (v : val) (l : option label) (rows : list srow) : bool :=
  match rows_with v rows, l with
  | [r], Some lab => label_eqb (r_label r) lab
  | _, _ => false
  end.

(* the values a qualitative summary must show *)
Definition qual_shown (c : tcase) (v : val) : bool :=
  negb (is_number v) && negb (py_eq v (t_default c))
  && negb (negb (t_dropna c) && py_eq v (t_nan c)).

Definition known_values (c : tcase) : list val := dvalues (t_content c).

(* cells of the training frame: the output label is the label of the row showing the cell *)
Definition cell_row_ok (c : tcase) (rows : list srow) (x : val) (o : out) : bool :=
  if is_nan x then
    if t_dropna c && mem (t_nan c) (known_values c) then
      match rows_with (t_nan c) rows with
      | [r] => out_eqb (OLab (r_label r)) o
      | _ => false
      end
    else true
  else
    match t_kind c with
    | Qual =>
        if mem x (known_values c) && qual_shown c x then
          match rows_with x rows with
          | [r] => out_eqb (OLab (r_label r)) o
          | _ => false
          end
        else true
    | Quant =>
        match o with
        | OLab l => existsb (fun r => label_eqb (r_label r) l) rows
        | _ => false
        end
    end.

Definition cells_rows_ok (c : tcase) (rows : list srow) : bool :=
  match t_out c with
  | IOk os => forallb2 (cell_row_ok c rows) (t_cells c) os
  | _ => false
  end.

Definition feature_rows_ok (c : tcase) (rows : list srow) : bool :=
  labels_nodup (map r_label rows)
  && forallb (fun r => negb (match r_content r with [] => true | _ => false end)) rows
  && cells_rows_ok c rows
  && match t_kind c with
     | Qual =>
         (* every known non-numeric value is shown exactly once, under its label *)
         forallb (fun v => negb (qual_shown c v) || shown_once v (impl_label c v) rows)
                 (known_values c)
         (* nothing else is shown *)
         && forallb (fun r => forallb (fun v => mem v (known_values c) && qual_shown c v)
                                      (r_content r)) rows
     | Quant =>
         (* one row per fitted group, labelled as the group *)
         Nat.eqb (List.length rows) (List.length (t_keys c))
         && forallb (fun k => match impl_label c k with
                              | Some l => existsb (fun r => label_eqb (r_label r) l) rows
                              | None => false
                              end) (t_keys c)
         (* missing values are shown in the row of the group they belong to, and only there *)
         && (negb (mem (t_nan c) (known_values c))
             || shown_once (t_nan c) (impl_label c (get_group (t_gl c) (t_nan c))) rows)
     end.

Definition each_ok (all : list (string * srow)) (fs : string * isum) : bool :=
  match snd fs with
  | SumOk rows =>
      forallb (fun r => String.eqb (fst r) (fst fs)) rows
      && frows_eqb rows (filter (fun r => String.eqb (fst r) (fst fs)) all)
  | _ => false
  end.

Definition C16_summary_b (c : ocase) : bool :=
  match o_all c with
  | SumOk all =>
      (* exactly the kept features *)
      forallb (fun r => existsb (fun nt => String.eqb (fst nt) (fst r)) (o_feats c)) all
      && forallb (fun nt => existsb (fun r => String.eqb (fst r) (fst nt)) all) (o_feats c)
      && forallb (fun nt => feature_rows_ok (snd nt) (rows_named (fst nt) all)) (o_feats c)
      && forallb (each_ok all) (o_each c)
      && forallb (fun fs => match snd fs with SumAssert => true | _ => false end) (o_unknown c)
  | _ => false
  end.

Definition domain_summary (c : ocase) : bool := forallb (fun nt => domain_ok (snd nt)) (o_feats c).

Definition verdict_summary (c : ocase) : nat :=
  if negb (domain_summary c) then 3%nat
  else if negb (C16_summary_b c) then 2%nat
  else if agree_summary c then 0%nat else 1%nat.

(* =========================================================================================== *)
(* history                                                                                     *)
(* =========================================================================================== *)
(* an implementation record: combination over base modality numbers, association value as the
   exact dyadic m * 2^e of the float (None = NaN), viability (None = not checked / raw) *)
Record irec := mkIR { i_comb : grouping; i_meas : option (Z * Z); i_viab : option bool }.

Record hcase := mkHCase {
  hc_cfg : cfg;
  hc_data : feature_data;
  hc_kept : outcome;            (* fitted grouping read from values_orders (as in C01) *)
  hc_raw : list irec;           (* the "Raw X distribution" record(s) *)
  hc_s1 : list irec;            (* records with grouping_nan = False *)
  hc_s2 : list irec }.          (* records with grouping_nan = True *)

Definition nat_mem (x : nat) (l : list nat) : bool := existsb (Nat.eqb x) l.
Definition nset_eqb (a b : list nat) : bool :=
  forallb (fun x => nat_mem x b) a && forallb (fun x => nat_mem x a) b.
Definition grouping_equiv (a b : grouping) : bool :=
  Nat.eqb (List.length a) (List.length b)
  && forallb (fun g => existsb (nset_eqb g) b) a && forallb (fun g => existsb (nset_eqb g) a) b.

Definition q_of_dyadic (m e : Z) : Q :=
  if 0 <=? e then inject_Z (m * 2 ^ e) else Qmake m (Z.to_pos (2 ^ (- e))).

(* the model's measures are V^2, T^4 and H; the implementation reports V, T and H *)
Definition impl_power (k : measure_kind) (q : Q) : Q :=
  match k with
  | Kruskal => q
  | Cramerv => Qmult q q
  | Tschuprowt => Qmult (Qmult q q) (Qmult q q)
  end.

Definition abs_tol (k : measure_kind) : Q :=
  match k with
  | Kruskal => 1 # 1000000000
  | Cramerv => 1 # 100000000000000000000
  | Tschuprowt => 1 # 1000000000000000000000000000000
  end.

Definition qmax (a b : Q) : Q := if Qle_bool a b then b else a.

Definition q_close (k : measure_kind) (a b : Q) : bool :=
  Qle_bool (qabs (Qminus a b))
           (Qplus (Qmult (1 # 1000000000) (qmax (qabs a) (qabs b))) (abs_tol k)).

(* model None = degenerate table (no float is prescribed) *)
Definition measure_agree (k : measure_kind) (i : option (Z * Z)) (m : option Q) : bool :=
  match i, m with
  | _, None => true
  | Some (mz, e), Some q => q_close k (impl_power k (q_of_dyadic mz e)) q
  | None, Some _ => false
  end.

Definition viab_eqb (a b : option bool) : bool :=
  match a, b with
  | None, None => true
  | Some x, Some y => Bool.eqb x y
  | _, _ => false
  end.

Definition rec_agree (k : measure_kind) (i : irec) (r : hrec) : bool :=
  grouping_equiv (i_comb i) (h_comb r) && measure_agree k (i_meas i) (h_meas r)
  && viab_eqb (i_viab i) (h_viab r).

Definition impl_history (c : hcase) : list irec := hc_raw c ++ hc_s1 c ++ hc_s2 c.

Definition agree_positional (c : hcase) : bool :=
  forallb2 (rec_agree (sort_by (hc_cfg c))) (impl_history c) (feature_history (hc_cfg c) (hc_data c)).

(* ---- every candidate with measure and viability (the search space of one stage) ----------- *)
Record crec := mkC { c_comb : grouping; c_meas : option Q; c_viable : bool }.

Definition stage_space (cf : cfg) (train : list ymset) (dev : option (list ymset))
  (cands : list grouping) (show : grouping -> grouping) : list crec :=
  map (fun c => mkC (show c) (measure cf train (total_n train) c) (viable cf train dev c)) cands.

Definition find_comb (c : grouping) (sp : list crec) : option crec :=
  find (fun r => grouping_equiv c (c_comb r)) sp.

Fixpoint pairwise_distinct (l : list irec) : bool :=
  match l with
  | [] => true
  | x :: t => negb (existsb (fun y => grouping_equiv (i_comb x) (i_comb y)) t) && pairwise_distinct t
  end.

(* the records of a stage list every candidate exactly once, with its association value *)
Definition stage_complete (k : measure_kind) (recs : list irec) (sp : list crec) : bool :=
  Nat.eqb (List.length recs) (List.length sp)
  && pairwise_distinct recs
  && forallb (fun i => match find_comb (i_comb i) sp with
                       | Some r => measure_agree k (i_meas i) (c_meas r)
                       | None => false
                       end) recs.

(* flags: not viable ... not viable, viable, not checked ... not checked *)
Fixpoint all_unchecked (l : list irec) : bool :=
  match l with
  | [] => true
  | x :: t => match i_viab x with None => all_unchecked t | _ => false end
  end.
Fixpoint flags_shape (l : list irec) : bool :=
  match l with
  | [] => true
  | x :: t => match i_viab x with
              | Some false => flags_shape t
              | Some true => all_unchecked t
              | None => false
              end
  end.

Definition i_flagged (i : irec) : bool := match i_viab i with Some true => true | _ => false end.

Fixpoint i_last_viable (l : list irec) : option grouping :=
  match l with
  | [] => None
  | x :: t => match i_last_viable t with
              | Some c => Some c
              | None => if i_flagged x then Some (i_comb x) else None
              end
  end.

(* the implementation's own stage-1 winner, in canonical form (harness: numbers ascending inside
   a group, groups by first number) *)
Definition impl_c1 (c : hcase) : option grouping := i_last_viable (hc_s1 c).

Definition space1 (c : hcase) : list crec :=
  let cf := hc_cfg c in let d := hc_data c in
  if (List.length (d_train d) <=? 1)%nat then []
  else stage_space cf (d_train d) (d_dev d) (stage1_cands cf d) (fun x => x).

Definition space2 (c : hcase) : list crec :=
  let cf := hc_cfg c in let d := hc_data c in
  match impl_c1 c with
  | Some c1 =>
      if two_stage cf d then
        stage_space cf (fst (stage2_inputs d c1)) (snd (stage2_inputs d c1)) (stage2_cands cf c1)
                    (expand c1 (List.length (d_train d)))
      else []
  | None => []
  end.

Definition raw_ok (c : hcase) : bool :=
  let n := List.length (raw_units (hc_data c)) in
  if (n <=? 1)%nat then match hc_raw c with [] => true | _ => false end
  else match hc_raw c with
       | [r] => grouping_equiv (i_comb r) (singletons n)
                && match i_viab r with None => true | _ => false end
                && measure_agree (sort_by (hc_cfg c)) (i_meas r) (h_meas (raw_record (hc_cfg c) (hc_data c)))
       | _ => false
       end.

(* C16 (history half) on the implementation's records *)
Definition C16_history_b (c : hcase) : bool :=
  let k := sort_by (hc_cfg c) in
  raw_ok c
  && stage_complete k (hc_s1 c) (space1 c) && flags_shape (hc_s1 c)
  && stage_complete k (hc_s2 c) (space2 c) && flags_shape (hc_s2 c)
  && match hc_kept c with
     | Kept g => match i_last_viable (hc_s1 c ++ hc_s2 c) with
                 | Some l => grouping_equiv g l
                 | None => false
                 end
     | Dropped => true
     end.

(* a valid run of the search: decreasing measures (up to 1e-9), flags = the model's viability *)
Fixpoint decreasing (sp : list crec) (l : list irec) : bool :=
  match l with
  | a :: ((b :: _) as t) =>
      match find_comb (i_comb a) sp, find_comb (i_comb b) sp with
      | Some ra, Some rb => oq_ge_tol (c_meas ra) (c_meas rb) && decreasing sp t
      | _, _ => false
      end
  | _ => true
  end.

Definition flags_true (sp : list crec) (l : list irec) : bool :=
  forallb (fun i => match i_viab i, find_comb (i_comb i) sp with
                    | Some b, Some r => Bool.eqb b (c_viable r)
                    | None, Some _ => true
                    | _, None => false
                    end) l.

(* when no candidate is flagged viable, every candidate was tested *)
Definition kept_consistent (c : hcase) : bool :=
  match hc_kept c, i_last_viable (hc_s1 c), i_last_viable (hc_s2 c) with
  | Dropped, Some _, Some _ => false
  | Dropped, Some _, None => two_stage (hc_cfg c) (hc_data c)
  | Dropped, None, _ => true
  | Kept _, Some _, o2 => if two_stage (hc_cfg c) (hc_data c)
                          then match o2 with Some _ => true | None => false end else true
  | Kept _, None, _ => false
  end.

Definition agree_valid_run (c : hcase) : bool :=
  decreasing (space1 c) (hc_s1 c) && flags_true (space1 c) (hc_s1 c)
  && decreasing (space2 c) (hc_s2 c) && flags_true (space2 c) (hc_s2 c)
  && kept_consistent c.

Definition verdict_history (c : hcase) : nat :=
  if negb (dev_aligned_b (hc_data c)) then 3%nat
  else if negb (C16_history_b c) then 2%nat
  else if agree_positional c then 0%nat
  else if agree_valid_run c then 4%nat else 1%nat.

(* =========================================================================================== *)
Inductive c16case := CS (o : ocase) | CH (h : hcase).

Definition verdict16 (c : c16case) : nat :=
  match c with CS o => verdict_summary o | CH h => verdict_history h end.
