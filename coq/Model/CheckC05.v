(* CheckC05.v — verdict function of the C05 correspondence (same case type as C04): probe cells
   NOT seen at fit.  C05_b is the property evaluated on the implementation's own output:
   AssertionError only for a stated reason, otherwise every cell is a fitted label.
   No proofs here. *)
From AC.Model Require Import Base GroupedList CheckC13 Labels Transform CheckC04.

(* a cell that entitles transform to raise AssertionError *)
Definition reject_reason (c : tcase) (x : val) : bool :=
  let g := t_gl c in
  if is_nan x then negb (contains g (t_nan c))
  else match t_kind c with
       | Quant => false                                    (* numbers are never rejected *)
       | Qual => negb (mem x (values g))
                 && (py_eq x (t_nan c) || negb (mem (t_default c) (values g)))
       end.

Definition label_set (c : tcase) : list label := map snd (t_lpv c).

(* an unseen category of a feature with a default group *)
Definition defaulted (c : tcase) (x : val) : bool :=
  match t_kind c with
  | Qual => negb (is_nan x) && negb (mem x (values (t_gl c))) && py_neq x (t_nan c)
            && mem (t_default c) (values (t_gl c))
  | Quant => false
  end.

(* a number is sent to the label of the first boundary >= it (when there is one) *)
Definition number_ok (c : tcase) (x : val) (l : label) : bool :=
  match t_kind c with
  | Qual => true
  | Quant =>
      if is_nan x then true
      else match first_geq x (filter (fun v => py_neq v (t_nan c)) (t_keys c)) with
           | None => true
           | Some ld => match impl_label c ld with Some e => label_eqb l e | None => false end
           end
  end.

Definition probe_ok (c : tcase) (x : val) (o : out) : bool :=
  match o with
  | OLab l =>
      existsb (label_eqb l) (label_set c) && number_ok c x l
      && (negb (defaulted c x)
          || match impl_label c (get_group (t_gl c) (t_default c)) with
             | Some d => label_eqb l d
             | None => false
             end)
  | OMissing => negb (t_dropna c) && match lget (t_nan c) (t_lpv c) with Some _ => true | None => false end
  | ORaw _ => false
  end.

(* premises of theorem transform_total, as booleans on the implementation's state *)
Definition sentinel_b (c : tcase) : bool :=
  match t_kind c with
  | Qual => true
  | Quant =>
      match rev (filter (fun v => py_neq v (t_nan c)) (t_keys c)) with
      | VPInf :: fs => forallb is_finite fs
      | _ => false
      end
  end.

Definition premises_b (c : tcase) : bool :=
  wf_b (t_gl c) && sentinel_b c && is_str (t_nan c) && truthy (t_nan c).

Definition conclusion_b (c : tcase) : bool :=
  match t_out c with
  | IInternal => false
  | IAssert => existsb (reject_reason c) (t_cells c)
  | IOk os => negb (existsb (reject_reason c) (t_cells c))   (* a cell to reject was accepted *)
              && forallb2 (probe_ok c) (t_cells c) os
  end.

(* library-fitted objects must satisfy the conclusion outright; hand-made states only when the
   premises of the theorem hold *)
Definition C05_b (c : tcase) : bool :=
  if negb (t_fitted c) && negb (premises_b c) then true else conclusion_b c.

Definition verdict05 (c : tcase) : nat :=
  if negb (domain_ok c) then 3%nat
  else if negb (C05_b c) then 2%nat
  else if agree c then 0%nat else 1%nat.
