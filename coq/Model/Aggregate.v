(* Aggregate.v — from a sample (rows) to the carver's input (per-unit multisets of target values),
   and the equivalence of inputs under which carving is invariant.  The carving model of Carve.v
   reads only the per-unit multisets: never the row order, the row index, the raw value of a
   quantitative feature or the name of a category.  No proofs here (see Proofs/AggregateProofs.v). *)
From Coq Require Import ZArith List Bool.
Import ListNotations.
From AC.Model Require Import Measures Carve.
Open Scope Z_scope.

(* a sample as rows (unit index of the row's feature value, target value); the carver's input is the
   per-unit multiset of targets, one entry of multiplicity 1 per row *)
Definition aggregate (m : nat) (rows : list (nat * Z)) : list ymset :=
  map (fun i => map (fun r => (snd r, 1%Z)) (filter (fun r => Nat.eqb (fst r) i) rows)) (seq 0 m).

(* unit of a quantitative value: number of boundaries strictly below it
   = index of the first leader >= x *)
Definition unit_index (boundaries : list Z) (x : Z) : nat :=
  length (filter (fun b => Z.ltb b x) boundaries).

(* two multisets are the same when every value has the same total multiplicity:
   [(1,2)] and [(1,1);(1,1)] are equivalent *)
Definition ms_equiv (u v : ymset) : Prop := forall x, ms_count x u = ms_count x v.

Definition opt_rel {A} (R : A -> A -> Prop) (a b : option A) : Prop :=
  match a, b with
  | Some x, Some y => R x y
  | None, None => True
  | _, _ => False
  end.

Record data_equiv (d d' : feature_data) : Prop := mkDataEquiv {
  de_train : Forall2 ms_equiv (d_train d) (d_train d');
  de_train_nan : opt_rel ms_equiv (d_train_nan d) (d_train_nan d');
  de_dev : opt_rel (Forall2 ms_equiv) (d_dev d) (d_dev d');
  de_dev_nan : opt_rel ms_equiv (d_dev_nan d) (d_dev_nan d') }.

(* ---- samples with missing values and an optional dev sample ------------------------------- *)
(* a row is (Some unit | None = missing, target) *)
Definition in_unit (i : nat) (r : option nat * Z) : bool :=
  match fst r with Some j => Nat.eqb j i | None => false end.
Definition is_missing (r : option nat * Z) : bool :=
  match fst r with Some _ => false | None => true end.

Definition aggregate_o (m : nat) (rows : list (option nat * Z)) : list ymset :=
  map (fun i => map (fun r => (snd r, 1%Z)) (filter (in_unit i) rows)) (seq 0 m).

(* the missing-value modality exists only when some row is missing *)
Definition aggregate_nan (rows : list (option nat * Z)) : option ymset :=
  match filter is_missing rows with
  | [] => None
  | l => Some (map (fun r => (snd r, 1%Z)) l)
  end.

Definition sample_data (m : nat) (train : list (option nat * Z)) (dev : option (list (option nat * Z)))
  : feature_data :=
  mkData (aggregate_o m train) (aggregate_nan train)
         (option_map (aggregate_o m) dev)
         (match dev with Some dv => aggregate_nan dv | None => None end).

(* rows of a quantitative feature given as (raw value, target), discretized by boundaries *)
Definition quant_rows (boundaries : list Z) (rows : list (Z * Z)) : list (nat * Z) :=
  map (fun r => (unit_index boundaries (fst r), snd r)) rows.
