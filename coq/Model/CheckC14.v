(* CheckC14.v — verdict function of the C14 correspondence: the model's selection vs the list
   returned by ClassificationSelector / RegressionSelector.select, and the property predicate
   C14_b evaluated on the IMPLEMENTATION's own output with the independent (specification)
   strengths of association.  No proofs here. *)
From AC.Model Require Import Base Selector.

Fixpoint list_eqb {A} (eqb : A -> A -> bool) (a b : list A) : bool :=
  match a, b with
  | [], [] => true
  | x :: s, y :: t => eqb x y && list_eqb eqb s t
  | _, _ => false
  end.

Fixpoint memn (x : nat) (l : list nat) : bool :=
  match l with [] => false | y :: t => Nat.eqb x y || memn x t end.

Fixpoint nodupn (l : list nat) : bool :=
  match l with [] => true | x :: t => negb (memn x t) && nodupn t end.

Fixpoint memz (x : Z) (l : list Z) : bool :=
  match l with [] => false | y :: t => Z.eqb x y || memz x t end.

Fixpoint nodupz (l : list Z) : bool :=
  match l with [] => true | x :: t => negb (memz x t) && nodupz t end.

(* one dtype of a case: model input + the features of that dtype returned by the implementation *)
(* tc_fragile: some quantitative association is exactly equal to thresh_corr and pandas' float for
   it is above / not above the threshold depending on the column order (rounding noise): the
   implementation may decide either way *)
(* tc_cs: colsample < 1 — shuffled order of the features (oracle: random.shuffle of the real run),
   chunks, number of samples, and the samples the implementation was observed to measure *)
Record csinfo := mkCs { cs_shuffled : list nat; cs_chunks : nat; cs_k : nat; cs_observed : list (list nat) }.
Record tcase := mkT { tc_in : tin; tc_out : list nat; tc_fragile : bool; tc_cs : option csinfo }.

Inductive ierr := IOk | IAssert | IInternal.

Record c14case := mkCase {
  c_nbest : Z;
  c_nfeat : Z;
  c_types : list tcase;        (* float, then str *)
  c_err : ierr;                (* what select() (or the constructor) raised *)
  c_wellformed : bool;         (* returned names: distinct, all inputs, quantitative ones first *)
  c_unchanged : bool }.        (* deep copies of X and y equal after the call *)

(* ---- agreement with the model ------------------------------------------------------------ *)
Definition select_tc (tc : tcase) : res (list nat) :=
  match tc_cs tc with
  | None => select_type (tc_in tc)
  | Some cs => select_type_cs (tc_in tc) (cs_shuffled cs) (cs_chunks cs) (cs_k cs)
  end.

Fixpoint select_tcs (ts : list tcase) : res (list (list nat)) :=
  match ts with
  | [] => Ok []
  | t :: rest => do a <- select_tc t; do b <- select_tcs rest; Ok (a :: b)
  end.

Definition select_case (c : c14case) : res (list (list nat)) :=
  if (0 <? c_nbest c) && (c_nbest c <=? c_nfeat c + 1) then select_tcs (c_types c) else AssertErr.

(* the samples the implementation measured are the model's samples *)
Definition samples_agree (tc : tcase) : bool :=
  match tc_cs tc with
  | None => true
  | Some cs => list_eqb (list_eqb Nat.eqb) (col_samples (cs_chunks cs) (cs_k cs) (cs_shuffled cs)) (cs_observed cs)
  end.

Definition agree (c : c14case) : bool :=
  match select_case c, c_err c with
  | Ok outs, IOk => list_eqb (list_eqb Nat.eqb) outs (map tc_out (c_types c))
                    && forallb samples_agree (c_types c)
  | AssertErr, IAssert => true
  | InternalErr, IInternal => true
  | _, _ => false
  end.

(* helpers for exact ties *)
Definition col_vals (fs : list feat) (j : nat) : list Z :=
  flat_map (fun f => match nth_error (f_raw f) j with
                     | Some r => if r_err r || r_nan r then [] else [r_val r]
                     | None => [] end) fs.

Definition spec_vals (fs : list feat) (j : nat) : list Z :=
  flat_map (fun f => match nth j (f_spec f) None with Some z => [z] | None => [] end) fs.

Definition boundary (f : filt) (ids : list nat) : bool :=
  existsb (fun i => existsb (fun j => negb (Nat.eqb i j) && (fst (assoc_at f i j) =? fl_thresh f)) ids) ids.

(* exact tie of a measure between two features: any order is accepted.  (An association exactly
   equal to thresh_corr is NOT a tie here: the float-level oracle of the matrix entry tells the
   model what the comparison returned.) *)
Definition has_ties (t : tin) : bool :=
  let js := seq 0 (List.length (t_ms t)) in
  existsb (fun j => (m_ranking (nth j (t_ms t) dflt_m) && negb (nodupz (col_vals (t_feats t) j)))
                    || negb (nodupz (spec_vals (t_feats t) j))) js.

(* for metamorphic pairs the rounding noise of the two runs may differ at such a boundary *)
Definition has_boundary (t : tin) : bool :=
  existsb (fun f => boundary f (map f_id (t_feats t))) (t_filters t).

(* ---- the property on the implementation's output --------------------------------------------- *)
Definition feat_of (t : tin) (i : nat) : option feat := find (fun f => Nat.eqb (f_id f) i) (t_feats t).

Definition spec_at (t : tin) (i j : nat) : option Z :=
  match feat_of t i with Some f => nth j (f_spec f) None | None => None end.

(* ordered by decreasing strength of the LAST requested measure *)
Fixpoint sorted_spec (t : tin) (j : nat) (out : list nat) : bool :=
  match out with
  | a :: ((b :: _) as rest) =>
      match spec_at t a j, spec_at t b j with
      | Some x, Some y => (y <=? x) && sorted_spec t j rest
      | _, _ => false
      end
  | _ => true
  end.

Fixpoint pairwise_ok (ok : nat -> nat -> bool) (out : list nat) : bool :=
  match out with
  | [] => true
  | a :: rest => forallb (ok a) rest && pairwise_ok ok rest
  end.

Definition independent_b (t : tin) (out : list nat) : bool :=
  forallb (fun f => pairwise_ok (fun a b => fst (assoc_at f a b) <=? fl_thresh f) out) (t_filters t).

(* a feature that is left out has a reason, for every requested measure *)
Definition reason_b (t : tin) (out : list nat) (f : feat) (j : nat) : bool :=
  match nth j (f_spec f) None with
  | None => true                                              (* undefined *)
  | Some s =>
      (s <=? 0)                                               (* no association at all *)
      || (s <? m_sthresh (nth j (t_ms t) dflt_m))            (* below the minimum association *)
      || (let better := filter (fun g => match spec_at t g j with Some sg => s <=? sg | None => false end) out in
          (Nat.leb (t_nbest t) (List.length better))               (* n_best better features returned *)
          || existsb (fun fl => existsb (fun g => fl_thresh fl <=? fst (assoc_at fl (f_id f) g)) better)
                     (t_filters t))                           (* too associated with a better one *)
  end.

(* association measures (not the outlier-screening gates), and the last of them *)
Definition assoc_idx (ms : list mspec) : list nat :=
  filter (fun j => negb (m_gate (nth j ms dflt_m))) (seq 0 (List.length ms)).

Definition last_assoc (ms : list mspec) : option nat :=
  match rev (assoc_idx ms) with j :: _ => Some j | [] => None end.

(* the feature is screened out by a gate: its share of outliers is not below the threshold *)
Definition gate_fails (t : tin) (f : feat) : bool :=
  existsb (fun j => let m := nth j (t_ms t) dflt_m in
                    m_gate m && match nth_error (f_raw f) j with
                                | Some r => negb (r_val r <? m_thresh m)
                                | None => false end)
          (seq 0 (List.length (t_ms t))).

Definition maximal_b (t : tin) (out : list nat) : bool :=
  forallb (fun f => memn (f_id f) out
                    || negb (base_ok (t_n t) (t_tnan t) (t_tmode t) f)
                    || gate_fails t f
                    || forallb (reason_b t out f) (seq 0 (List.length (t_ms t))))
          (t_feats t).

Definition type_ok (tc : tcase) : bool :=
  let t := tc_in tc in
  let out := tc_out tc in
  nodupn out && forallb (fun i => memn i (map f_id (t_feats t))) out &&
  match last_assoc (t_ms t) with
  | None => true                       (* no association measure requested for this dtype *)
  | Some jl =>
      sorted_spec t jl out
      && Nat.leb (List.length out) (t_nbest t * List.length (assoc_idx (t_ms t)))
      && independent_b t out
      (* colsample < 1 pre-selects n_best // 2 features per sample: a feature may be left out although
         fewer than n_best better ones are returned (documented approximation); order, distinctness,
         count and pairwise independence of the FINAL list are required all the same *)
      && (match tc_cs tc with Some _ => true | None => maximal_b t out end)
  end.

Definition valid_nbest (c : c14case) : bool := (0 <? c_nbest c) && (c_nbest c <=? c_nfeat c + 1).

Definition C14_b (c : c14case) : bool :=
  c_wellformed c && c_unchanged c &&
  match c_err c with
  | IInternal => false
  | IAssert => negb (valid_nbest c)
  | IOk => forallb type_ok (c_types c)
  end.

(* 0 agree & holds | 1 disagree | 2 property predicate fails | 4 agree up to an exact tie *)
(* a disagreement with the model is reported (1) even when the predicate also fails for a known
   reason: otherwise a regression on a configuration hit by a known finding would be masked *)
Definition verdict1 (c : c14case) : nat :=
  if agree c then (if C14_b c then 0%nat else 2%nat)
  else if existsb (fun tc => has_ties (tc_in tc) || tc_fragile tc) (c_types c)
       then (if C14_b c then 4%nat else 2%nat)
  else 1%nat.

Definition verdict (c : c14case) : nat := verdict1 c.

(* several select() calls on ONE selector object (each compared with the model run on its own
   input: the object must keep no state between calls): the worst verdict *)
Definition verdict_seq (cs : list c14case) : nat :=
  let vs := map verdict1 cs in
  if existsb (Nat.eqb 1) vs then 1%nat
  else if existsb (Nat.eqb 2) vs then 2%nat
  else if existsb (Nat.eqb 4) vs then 4%nat
  else 0%nat.
