(* CheckC15.v — (1) verdict function of the C15 metamorphic correspondence: two runs of a real
   selector on a frame and on its re-encoding (negation / positive rescaling of a quantitative
   feature, renaming of categories, row / column permutation, renamed columns, added copy of the
   target), both compared with the model, and the predicate "same selection up to the renaming";
   (2) executable definitions of the rank statistics the theorems of Properties/C15.v talk about
   (mid-ranks, tie counts, the sufficient statistics of Kruskal-Wallis H and Spearman's rho).
   No proofs here. *)
From AC.Model Require Import Base Selector CheckC14.

Record c15case := mkC15 {
  ca : c14case;                 (* original frame *)
  cb : c14case;                 (* re-encoded frame *)
  c_ren : list (list nat);      (* per dtype: feature number in ca -> feature number in cb *)
  c_must : list (list nat);     (* per dtype: features of ca that must be returned (copy of the target) *)
  c_free : bool }.              (* colsample < 1 with two random seeds: the selections may differ *)

Definition ren_out (ren out : list nat) : list nat := map (fun i => nth i ren 0%nat) out.

Fixpoint map2 {A B C} (f : A -> B -> C) (a : list A) (b : list B) : list C :=
  match a, b with x :: s, y :: t => f x y :: map2 f s t | _, _ => [] end.

Definition ierr_eqb (a b : ierr) : bool :=
  match a, b with IOk, IOk | IAssert, IAssert | IInternal, IInternal => true | _, _ => false end.

(* the re-encoded run returns the renamed features, in the same order *)
Definition same_b (c : c15case) : bool :=
  ierr_eqb (c_err (ca c)) (c_err (cb c)) &&
  list_eqb (list_eqb Nat.eqb)
           (map2 ren_out (c_ren c) (map tc_out (c_types (ca c))))
           (map tc_out (c_types (cb c))).

(* a copy of / strictly monotone function of the target is returned, unless it fails thresh_nan /
   thresh_mode, or n_best returned features of its type are EXACTLY as associated with the target
   (tie at the top: nothing may be strictly better than a perfect predictor), or it is too
   associated with a returned feature that is at least as associated *)
Definition must_ok (tc : tcase) (i : nat) : bool :=
  let t := tc_in tc in
  let out := tc_out tc in
  memn i out ||
  match last_assoc (t_ms t), feat_of t i with
  | None, _ => true                                 (* no association measure requested for this dtype *)
  | _, None => false
  | Some j, Some f =>
      negb (base_ok (t_n t) (t_tnan t) (t_tmode t) f)   (* fails thresh_nan / thresh_mode *)
      || gate_fails t f                                 (* screened out by an outlier gate *)
      || match nth j (f_spec f) None with
         | Some s =>
             let better := filter (fun g => match spec_at t g j with Some sg => s <=? sg | None => false end) out in
             (Nat.leb (t_nbest t) (List.length better)
              && forallb (fun g => match spec_at t g j with Some sg => sg =? s | None => false end) better)
             || existsb (fun fl => existsb (fun g => fl_thresh fl <=? fst (assoc_at fl i g)) better) (t_filters t)
         | None => false
         end
  end.

Definition musts_ok (c : c15case) : bool :=
  match c_err (ca c) with
  | IOk => forallb (fun p => forallb (must_ok (fst p)) (snd p)) (combine (c_types (ca c)) (c_must c))
  | _ => true       (* select raised: judged by C14 (and by the equal-error clause), not here *)
  end.

(* free pairs (colsample < 1, two random seeds): the copy must be returned by the second run too *)
Definition musts_ok_b (c : c15case) : bool :=
  negb (c_free c) ||
  match c_err (cb c) with
  | IOk => forallb (fun p => forallb (must_ok (fst p)) (ren_out (fst (snd p)) (snd (snd p))))
                   (combine (c_types (cb c)) (combine (c_ren c) (c_must c)))
  | _ => true
  end.

Definition ties15 (c : c15case) : bool :=
  existsb (fun tc => has_ties (tc_in tc) || has_boundary (tc_in tc)) (c_types (ca c))
  || existsb (fun tc => has_ties (tc_in tc) || has_boundary (tc_in tc)) (c_types (cb c)).

(* colsample < 1: the samples the implementation measured form a partition of the shuffled
   feature list (every feature belongs to exactly one sample) *)
Definition partition_b (c : c14case) : bool :=
  match c_err c with
  | IOk => forallb (fun tc => match tc_cs tc with
                              | None => true
                              | Some cs => list_eqb Nat.eqb (List.concat (cs_observed cs)) (cs_shuffled cs)
                              end) (c_types c)
  | _ => true
  end.

Definition C15_b (c : c15case) : bool :=
  (c_free c || same_b c || ties15 c) && musts_ok c && musts_ok_b c
  && partition_b (ca c) && partition_b (cb c).

(* 0 both runs agree with the model & same selection | 1 a run disagrees with the model |
   2 the selections differ / the copy of the target is not returned | 4 equal up to exact ties *)
Definition verdict15 (c : c15case) : nat :=
  if agree (ca c) && agree (cb c) then
    (if negb (C15_b c) then 2%nat else if same_b c || c_free c then 0%nat else 4%nat)
  else if ties15 c then (if C15_b c then 4%nat else 2%nat)
  else 1%nat.

(* ---- rank statistics (specification functions) ------------------------------------------- *)
Definition count (p : Z -> bool) (l : list Z) : Z := Z.of_nat (List.length (filter p l)).

(* twice the mid-rank of x in xs:  2 #{y < x} + #{y = x} + 1 *)
Definition rank2 (xs : list Z) (x : Z) : Z :=
  2 * count (fun y => y <? x) xs + count (fun y => y =? x) xs + 1.

Definition ranks2 (xs : list Z) : list Z := map (rank2 xs) xs.

(* size of the tie group of every observation (tie correction of H) *)
Definition tie_counts (xs : list Z) : list Z := map (fun x => count (fun y => y =? x) xs) xs.

Fixpoint zsum (l : list Z) : Z := match l with [] => 0 | x :: t => x + zsum t end.

(* Kruskal-Wallis: per group (sum of twice-mid-ranks, size); H is a function of these, n and
   the tie counts:  H = (12/(n(n+1)) sum_g (R_g/2)^2/n_g - 3(n+1)) / (1 - sum(t^3-t)/(n^3-n)) *)
Definition group_stat (xs : list Z) (lab : list nat) (g : nat) : Z * Z :=
  let members := filter (fun p => Nat.eqb (snd p) g) (combine (ranks2 xs) lab) in
  (zsum (map fst members), Z.of_nat (List.length members)).

Definition kruskal_stat (xs : list Z) (lab groups : list nat) : list (Z * Z) * list Z :=
  (map (group_stat xs lab) groups, tie_counts xs).

(* Pearson on two columns: (n Sxy - Sx Sy, n Sxx - Sx^2, n Syy - Sy^2);  r^2 = c^2/(vx vy), sign c *)
Definition pearson_stat (xs ys : list Z) : Z * Z * Z :=
  let n := Z.of_nat (List.length xs) in
  let sx := zsum xs in let sy := zsum ys in
  (n * zsum (map2 Z.mul xs ys) - sx * sy, n * zsum (map2 Z.mul xs xs) - sx * sx,
   n * zsum (map2 Z.mul ys ys) - sy * sy).

(* Spearman = Pearson on the (twice) mid-ranks *)
Definition spearman_stat (xs ys : list Z) : Z * Z * Z := pearson_stat (ranks2 xs) (ranks2 ys).
