(* CheckC09.v — verdict function of the C09 correspondence: model vs implementation on
   values_orders[feature], and the property predicate C09_b evaluated on the implementation's own
   output (bucket sizes recomputed here, in Coq, from the training aggregate).  No proofs here. *)
From Coq Require Import ZArith List Bool SpecFloat.
From AC.Model Require Import Base Float GroupedList Quantiles Ordinal Categorical.
Import ListNotations.
Open Scope Z_scope.

(* what the harness observes: values_orders[feature] as list + content, or why there is none *)
Inductive iout :=
| IOk (ks : list val) (c : dict)
| IDropped                     (* feature removed by the discretizer *)
| IAssert
| IInternal.

Inductive c09case :=
(* ContinuousDiscretizer.  dedup: which find_quantiles variant the implementation was probed to
   follow; raw: find_quantiles(column, q) as returned by the implementation *)
| KCont (dedup : bool) (mf : Z * Z) (nan_cnt : Z) (d : qdata) (raw : list Z) (o : iout)
(* QuantitativeDiscretizer / Discretizer on a quantitative feature *)
| KQuant (dedup : bool) (mf : Z * Z) (nan_cnt : Z) (d : qdata) (raw : list Z) (o : iout)
(* QualitativeDiscretizer / Discretizer on an ordinal feature with ranking [order] *)
| KOrd (mf : Z * Z) (nan_cnt : Z) (order : list val) (d : odata) (o : iout)
(* QualitativeDiscretizer / Discretizer on a categorical feature *)
| KCat (mf : Z * Z) (nan_cnt : Z) (order : list val) (d : odata) (o : iout).

(* ---- canonical comparison ------------------------------------------------------------------ *)
Fixpoint list_eqb {A} (eqb : A -> A -> bool) (a b : list A) : bool :=
  match a, b with
  | [], [] => true
  | x :: s, y :: t => eqb x y && list_eqb eqb s t
  | _, _ => false
  end.

Definition subset (a b : list val) : bool := forallb (fun x => mem x b) a.
(* members of a group are compared as sets *)
Definition set_eqb (a b : list val) : bool :=
  subset a b && subset b a && Nat.eqb (List.length a) (List.length b).

Definition group_eqb (c1 c2 : dict) (k : val) : bool :=
  match dget k c1, dget k c2 with
  | Some a, Some b => set_eqb a b
  | _, _ => false
  end.

(* same leaders in the same order, same members per leader *)
Definition agree_gl (ks : list val) (c : dict) (ks' : list val) (c' : dict) : bool :=
  list_eqb val_eqb ks ks' && forallb (group_eqb c c') ks
  && Nat.eqb (List.length c) (List.length c').

(* ---- helpers of the property predicate -------------------------------------------------- *)
Definition has_nan_b (nan_cnt : Z) : bool := 0 <? nan_cnt.

(* missing values are a separate modality, present iff the column has missing values *)
Definition nan_separate (nan_cnt : Z) (ks : list val) (c : dict) : bool :=
  if has_nan_b nan_cnt then
    mem str_nan ks && match dget str_nan c with Some [v] => val_eqb v str_nan | _ => false end
    && negb (mem str_nan (flat_map (fun kv => if val_eqb (fst kv) str_nan then [] else snd kv) c))
  else negb (mem str_nan ks) && negb (mem str_nan (dvalues c)).

Definition non_missing (ks : list val) : list val := filter (fun k => negb (val_eqb k str_nan)) ks.

Definition num_of (v : val) : option Z := match v with VNum z => Some z | _ => None end.

(* leaders of a quantitative feature: finite numbers then +inf; returns the finite part *)
Fixpoint finite_then_inf (ks : list val) : option (list Z) :=
  match ks with
  | [] => None
  | [VPInf] => Some []
  | VNum z :: t => match finite_then_inf t with Some l => Some (z :: l) | None => None end
  | _ => None
  end.

Definition qvalues (d : qdata) : list Z := map (fun p => fst (fst p)) d.

(* every bucket is frequent enough, or a single bucket remains *)
Definition buckets_ok (n : Z) (m : fl) (bs : list bucket) : bool :=
  forallb (fun b => negb (rare n m b)) bs || (List.length bs <=? 1)%nat.

(* ---- ContinuousDiscretizer ------------------------------------------------------------ *)
(* boundaries: strictly increasing observed training values followed by +inf; every value with
   count >= fl(len_df / q) is a boundary; missing values separate *)
Definition cont_b (mf : Z * Z) (nan_cnt : Z) (d : qdata) (raw : list Z) (ks : list val) (c : dict)
  : bool :=
  let n := nan_cnt + qcount_rows d in
  match q_of_min_freq mf with
  | None => false
  | Some q =>
      let t := thr n q in
      strictly_increasing raw
      && forallb (fun x => memZ x (qvalues d)) raw
      && forallb (fun p => negb (is_freq t (snd (fst p))) || memZ (fst (fst p)) raw) d
      && match finite_then_inf (non_missing ks) with
         | Some l => list_eqb Z.eqb l raw
         | None => false
         end
      && nan_separate nan_cnt ks c
  end.

Definition qres_agree (r : qres gl) (raw_model : qres (list Z)) (raw : list Z) (o : iout) : bool :=
  match r, raw_model, o with
  | QOk g, QOk qs, IOk ks c => list_eqb Z.eqb qs raw && agree_gl (keys g) (content g) ks c
  | QErr _, _, IInternal => true
  | _, _, _ => false
  end.

(* ---- QuantitativeDiscretizer ---------------------------------------------------------- *)
Definition quant_b (mf : Z * Z) (nan_cnt : Z) (d : qdata) (raw : list Z) (ks : list val) (c : dict)
  : bool :=
  let n := nan_cnt + qcount_rows d in
  let half := half_min_freq mf in
  strictly_increasing raw
  && match finite_then_inf (non_missing ks) with
     | Some l =>
         strictly_increasing l
         && forallb (fun x => memZ x raw) l
         && buckets_ok n half (qbuckets None (non_missing ks) d)
     | None => false
     end
  && nan_separate nan_cnt ks c.

(* ---- ordinal -------------------------------------------------------------------------- *)
Definition members_count (d : odata) (members : list val) : Z :=
  fold_right (fun v acc => match lookup v d with Some (c, _) => c + acc | None => acc end) 0 members.

Definition obs_buckets (d : odata) (ks : list val) (c : dict) : list bucket :=
  map (fun k => let ms := match dget k c with Some l => l | None => [] end in
                mkB k ms (members_count d ms) None) (non_missing ks).

Definition ord_b (mf : Z * Z) (nan_cnt : Z) (order : list val) (d : odata) (ks : list val) (c : dict)
  : bool :=
  let n := nan_cnt + count_rows d in
  buckets_ok n (min_freq_f mf) (obs_buckets d ks c)
  && forallb (fun v => mem v (dvalues c)) order         (* no value of the ranking is lost *)
  && nodupb (dvalues c)
  && nan_separate nan_cnt ks c.

Definition res_agree (r : res (option gl)) (o : iout) : bool :=
  match r, o with
  | Ok (Some g), IOk ks c => agree_gl (keys g) (content g) ks c
  | Ok None, IDropped => true
  | AssertErr, IAssert => true
  | InternalErr, IInternal => true
  | _, _ => false
  end.

(* ---- categorical ---------------------------------------------------------------------- *)
(* v is in the default group  <->  v is rarer than min_freq or never observed *)
Definition cat_b (mf : Z * Z) (nan_cnt : Z) (order : list val) (d : odata) (ks : list val) (c : dict)
  : bool :=
  let n := nan_cnt + count_rows d in
  let m := min_freq_f mf in
  let dflt := match dget str_default c with Some l => l | None => [] end in
  let should v := match lookup v d with
                  | Some (cnt, _) => fltb (fdivZ cnt n) m
                  | None => true
                  end in
  forallb (fun v => val_eqb v str_default || val_eqb v str_nan
                    || Bool.eqb (mem v dflt) (should v)) (observed d ++ order)
  && forallb (fun v => mem v (dvalues c)) (observed d)
  && nan_separate nan_cnt ks c.

Definition lookup_rate (v : val) (rates : list (val * fl)) : fl :=
  match filter (fun kr => val_eqb v (fst kr)) rates with kr :: _ => snd kr | [] => f_nan end.

Fixpoint rates_sorted (l : list fl) : bool :=
  match l with
  | [] => true
  | x :: t => match t with [] => true | y :: _ => fleb x y && rates_sorted t end
  end.

(* 0 identical | 4 identical up to the order of exactly tied target rates | 1 different *)
Definition cat_agree (r : res (option cat_state)) (o : iout) : nat :=
  match r, o with
  | Ok (Some st), IOk ks c =>
      if agree_gl (cs_keys st) (cs_content st) ks c then 0%nat
      else if set_eqb (cs_keys st) ks && nodupb ks
              && forallb (group_eqb (cs_content st) c) ks
              && Nat.eqb (List.length c) (List.length (cs_content st))
              && rates_sorted (map (fun k => lookup_rate k (cs_rates st)) (non_missing ks))
              && (negb (mem str_nan ks)
                  || match rev ks with k :: _ => val_eqb k str_nan | [] => false end)
           then 4%nat else 1%nat
  | Ok None, IDropped => 0%nat
  | AssertErr, IAssert => 0%nat
  | InternalErr, IInternal => 0%nat
  | _, _ => 1%nat
  end.

(* ---- the property on the implementation's output ------------------------------------- *)
Definition C09_b (k : c09case) : bool :=
  match k with
  | KCont _ mf nc d raw (IOk ks c) => cont_b mf nc d raw ks c
  | KQuant _ mf nc d raw (IOk ks c) => quant_b mf nc d raw ks c
  | KOrd mf nc order d (IOk ks c) => ord_b mf nc order d ks c
  | KCat mf nc order d (IOk ks c) => cat_b mf nc order d ks c
  (* a quantitative feature is never dropped nor refused on a well-formed column *)
  | KCont _ _ _ _ raw _ => strictly_increasing raw
  | KQuant _ _ _ _ raw _ => strictly_increasing raw
  | _ => true
  end.

Definition in_domain (k : c09case) : bool :=
  let okq mf n := match q_of_min_freq mf with Some q => (1 <=? q) && (0 <? n) | None => false end in
  match k with
  | KCont _ mf nc d _ _ | KQuant _ mf nc d _ _ =>
      okq mf (nc + qcount_rows d) && forallb (fun p => 0 <? snd (fst p)) d
  | KOrd mf nc _ d _ | KCat mf nc _ d _ =>
      okq mf (nc + count_rows d) && forallb (fun p => 0 <? snd (fst p)) d
  end.

Definition agree_code (k : c09case) : nat :=
  match k with
  | KCont dedup mf nc d raw o =>
      match q_of_min_freq mf with
      | None => 3%nat
      | Some q =>
          let n := nc + qcount_rows d in
          if qres_agree (fit_feature dedup q n nc (vcs_of d))
                        (find_quantiles_v dedup q n (vcs_of d)) raw o then 0%nat else 1%nat
      end
  | KQuant dedup mf nc d raw o =>
      match quantitative_fit dedup mf nc d, o with
      | QFit g, IOk ks c =>
          let n := nc + qcount_rows d in
          match q_of_min_freq mf with
          | Some q =>
              match find_quantiles_v dedup q n (vcs_of d) with
              | QOk qs => if list_eqb Z.eqb qs raw && agree_gl (keys g) (content g) ks c
                          then 0%nat else 1%nat
              | QErr _ => 1%nat
              end
          | None => 3%nat
          end
      | QFail _, IInternal => 0%nat
      | QInternal, IInternal => 0%nat
      | _, _ => 1%nat
      end
  | KOrd mf nc order d o => if res_agree (ordinal_fit mf nc order d) o then 0%nat else 1%nat
  | KCat mf nc order d o => cat_agree (categorical_fit mf nc order d) o
  end.

(* 0 agree & holds | 1 model and implementation disagree | 2 property predicate fails on the
   implementation's output | 3 outside the model's domain | 4 agree up to an exact tie *)
Definition verdict (k : c09case) : nat :=
  if negb (in_domain k) then 3%nat
  else if negb (C09_b k) then 2%nat
  else agree_code k.
