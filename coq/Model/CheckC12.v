(* CheckC12.v — verdict of the C12 correspondence.  No proofs here. *)
From Coq Require Import ZArith List String Bool.
Import ListNotations.
From AC.Model Require Import Float Combos Measures Carve CheckC01 Multiclass.

Fixpoint str_list_eqb (a b : list string) : bool :=
  match a, b with
  | [], [] => true
  | x :: s, y :: t => String.eqb x y && str_list_eqb s t
  | _, _ => false
  end.

Record c12class := mkC12class {
  qc_class : string;
  qc_case : c01case;            (* cfg, aggregates of the indicator 1[y = class], MULTICLASS outcome *)
  qc_binary : outcome }.        (* outcome of the independently fitted BinaryCarver *)

Record c12case := mkC12 {
  q_feature : string;
  q_classes : list string;      (* y.astype(str).unique() *)
  q_impl_classes : list string; (* classes the implementation fitted, in its order *)
  q_impl_columns : list string; (* casted columns the implementation kept for this feature *)
  q_per_class : list c12class }.

Definition verdict12 (c : c12case) : nat :=
  let vs := map (fun k => verdict (qc_case k)) (q_per_class c) in
  let model_cols :=
      kept_columns (map (fun k => (cast_name (q_feature c) (qc_class k),
                                   carve (k_cfg (qc_case k)) (k_data (qc_case k)))) (q_per_class c)) in
  let impl_cols_from_outcomes :=
      kept_columns (map (fun k => (cast_name (q_feature c) (qc_class k), k_impl (qc_case k))) (q_per_class c)) in
  if existsb (Nat.eqb 2) vs then 2%nat
  else if negb (forallb (fun k => outcome_eqb (k_impl (qc_case k)) (qc_binary k)) (q_per_class c)) then 2%nat
  else if negb (str_list_eqb (ovr_classes (q_classes c)) (q_impl_classes c)) then 1%nat
  else if negb (str_list_eqb (map qc_class (q_per_class c)) (q_impl_classes c)) then 3%nat
  else if negb (str_list_eqb impl_cols_from_outcomes (q_impl_columns c)) then 1%nat
  else if existsb (Nat.eqb 1) vs then 1%nat
  else if existsb (Nat.eqb 4) vs then 4%nat
  else if negb (str_list_eqb model_cols (q_impl_columns c)) then 1%nat
  else 0%nat.
