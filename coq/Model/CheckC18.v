(* CheckC18.v — verdict function of the C18 correspondence: model run vs implementation output,
   and the property predicate C18_b evaluated on the implementation's own output.  No proofs. *)
From Coq Require Import SpecFloat.
From AC.Model Require Import Base Float GroupedList CheckC13 Chained.

Inductive tout := TOk (l : list val) | TAssert | TInternal.

Inductive iout :=
| IAssert
| IInternal
| IDropped
| IFitted (content : dict) (okeys : list val) (t_train : tout) (t_known : tout).

Record c18case := mkC18 {
  k_wf : bool;                   (* generated as a forest of the documented shape *)
  k_levels : list dict;          (* chained_orders, bottom level first: parent -> members *)
  k_col : list val;              (* training column: VStr / VNaN *)
  k_mf : Z * Z;                  (* min_freq as exact dyadic *)
  k_drop : bool;                 (* unknown_handling == 'drop' *)
  k_vo : option (list val);      (* values_orders={feature: list} given at construction *)
  k_kin : list val;              (* second frame given to transform: every hierarchy value *)
  k_out : iout }.

(* ---- domain of the model ------------------------------------------------------------------ *)
Definition cell_ok (r : val) : bool := match r with VStr _ => true | VNaN => true | _ => false end.

Definition level_ok (d : dict) : bool :=
  nodupb (dkeys d) && forallb is_str (dkeys d) && forallb is_str (dvalues d)
  && negb (mem nan_s (dkeys d)) && negb (mem nan_s (dvalues d)).

Definition in_domain (c : c18case) : bool :=
  forallb level_ok (k_levels c) && forallb cell_ok (k_col c) && forallb is_str (k_kin c)
  && match k_vo c with Some l => forallb is_str l && nodupb l | None => true end
  && match k_col c with [] => false | _ => true end.

(* ---- agreement model / implementation ------------------------------------------------------ *)
Definition vmap_sub (a b : vmap) : bool :=
  forallb (fun kv => match aget (fst kv) b with Some l => val_eqb l (snd kv) | None => false end) a.
Definition vmap_eqb (a b : vmap) : bool :=
  vmap_sub a b && vmap_sub b a && Nat.eqb (List.length a) (List.length b).

Definition tout_of (r : res (list val)) : tout :=
  match r with Ok l => TOk l | AssertErr => TAssert | InternalErr => TInternal end.

Definition tout_eqb (a b : tout) : bool :=
  match a, b with
  | TOk x, TOk y => list_eqb val_eqb x y
  | TAssert, TAssert => true
  | TInternal, TInternal => true
  | _, _ => false
  end.

Definition agree (c : c18case) : bool :=
  match fit_with_order (k_vo c) (k_levels c) (k_col c) (k_mf c) (k_drop c), k_out c with
  | AssertErr, IAssert => true
  | InternalErr, IInternal => true
  | Ok Dropped, IDropped => true
  | Ok (Fitted g lpv), IFitted ct ks ttr tkn =>
      vmap_eqb (content_map g) (content_map (mkGL [] ct))
      && list_eqb val_eqb (keys g) ks            (* order of the modalities *)
      && tout_eqb (tout_of (transform g lpv (k_col c))) ttr
      && tout_eqb (tout_of (transform g lpv (k_kin c))) tkn
  | _, _ => false
  end.

(* ---- the property as a boolean on the implementation's output ------------------------------ *)
(* expected transform of a frame given a value -> leader map: each cell becomes its leader,
   str_nan leader shown as NaN; a cell without leader is refused *)
Definition expect_transform (m : vmap) (col : list val) : tout :=
  let filled := fillna col in
  if forallb (fun r => match aget r m with Some _ => true | None => false end) filled
  then TOk (map (fun r => match aget r m with
                          | Some l => if val_eqb l nan_s then VNaN else l
                          | None => r end) filled)
  else TAssert.

Definition C18_b (c : c18case) : bool :=
  negb (k_wf c) ||
  match init (k_levels c) with
  | Ok ch =>
      let mf := f_of_dyadic (fst (k_mf c)) (snd (k_mf c)) in
      let n := Z.of_nat (List.length (k_col c)) in
      if feature_dropped mf (k_col c) then true
      else if match k_vo c with Some l => negb (forallb (fun v => mem v (c_known ch)) l) | None => false end
      then true            (* values_orders names a value unknown to the hierarchy: refused at init *)
      else
        let filled := fillna (k_col c) in
        let lvs := c_levels ch in
        let unk := unknown_values (c_known ch) filled in
        let L0 := fun x => if mem x unk then nan_s else x in
        let L := lead mf n lvs filled lvs L0 in
        match k_out c with
        | IFitted ct ks ttr tkn =>
            let m := content_map (mkGL [] ct) in
            let ldr := fun v => match aget v m with Some l => l | None => VNaN end in
            (* unknown values only reach a fitted object under 'drop' *)
            (match unk with [] => true | _ => k_drop c end)
            (* every hierarchy value is still there *)
            && forallb (fun v => match aget v m with Some _ => true | None => false end) (c_known ch)
            (* leaders are ancestors-or-self, and exactly those of the level-by-level rule *)
            && forallb (fun v => negb (hierb lvs v) || (climbsb lvs v (ldr v) && val_eqb (ldr v) (L v)))
                       (c_known ch)
            (* a bottom-level value that belongs to no higher level keeps its own modality iff it
               is frequent enough in the training column (or is its own group leader) *)
            && match lvs with
               | [] => true
               | lv0 :: rest =>
                   forallb (fun v => hierb rest v ||
                                     Bool.eqb (val_eqb (ldr v) v)
                                              (val_eqb (get_group lv0 v) v || keepb mf n filled v))
                           (values lv0)
               end
            (* unknown values and missing values are led by str_nan *)
            && forallb (fun u => val_eqb (ldr u) nan_s) unk
            && (negb (mem nan_s filled) || val_eqb (ldr nan_s) nan_s)
            (* transform outputs each value's leader *)
            && tout_eqb ttr (expect_transform m (k_col c))
            && tout_eqb tkn (expect_transform m (k_kin c))
        | IAssert => match unk with [] => true | _ => negb (k_drop c) end
        | IInternal => match unk with [] => true | _ => false end
        | IDropped => true                  (* disagreement with the model: reported by agree *)
        end
  | _ => true
  end.

(* 0 agree & holds | 1 model and implementation disagree | 2 property predicate fails |
   3 outside the model's domain *)
Definition verdict (c : c18case) : nat :=
  if negb (in_domain c) then 3%nat
  else if negb (C18_b c) then 2%nat
  else if agree c then 0%nat else 1%nat.
